"""
C14 - the static dependency closure is exact and calls outside it are refused.
"""
from twosigma.memento.exception import UndeclaredDependencyError

from vp.engine import assume, check, cover, note, obligation, pick
from vp.memenv import Program, Sandbox, concrete_region
from vp.progen import FORMS, gen_graph_source, reach, reach_via_plain

MOD = "vpgraph"


def _bits(v, n):
    """concretise an n-bit mask"""
    return pick(v, 1 << n)


def _graph_from(n, mask, allow_self=True):
    adj = [[0] * n for _ in range(n)]
    k = 0
    for i in range(n):
        for j in range(n):
            if i == j and not allow_self:
                continue
            adj[i][j] = (mask >> k) & 1
            k += 1
    return adj


def _name(fn):
    return fn.qualified_name_without_version.split(":")[-1]


PLACEMENTS = ["module", "package-init", "submodule", "spread"]
# "spread": node i lives in module [vppk/__init__, vppk.a, vppk.b][i % 3] of ONE package; the other nodes' names are imported into each
# module (as `from .x import n<j>` would do) - helpers of the same package are in scope wherever in the package they are defined
MIXED = len(FORMS)  # forms_mode == MIXED: a different form per edge


def _program_for(placement):
    """where the generated code lives: a top-level module, the __init__ of a package, or a submodule of a package"""
    import sys
    import types

    if placement == "module":
        return Program(MOD), MOD
    if placement == "package-init":
        p = Program("vppk", package="vppk")
        p.mod.__path__ = []
        return p, "vppk"
    parent = types.ModuleType("vppk")
    parent.__package__ = "vppk"
    parent.__path__ = []
    sys.modules["vppk"] = parent
    p = Program("vppk.sub", package="vppk")
    return p, "vppk.sub"


class _Spread:
    """Facade over three Program objects (package __init__ and two submodules)."""

    NAMES = ["vppk", "vppk.a", "vppk.b"]

    def __init__(self, n, src_by_node, head):
        self.progs = [Program(nm, package="vppk") for nm in self.NAMES]
        self.progs[0].mod.__path__ = []
        self.trace = self.progs[0].trace
        for p in self.progs[1:]:
            p.trace = self.trace
            p.mod.__dict__["_trace"] = self.trace
        for k, p in enumerate(self.progs):
            p.exec(head.replace("'vpgraph'", repr(self.NAMES[k])))
        for i in range(n):
            self.progs[i % 3].exec(src_by_node[i])
        # `from .x import n<j>` in every module
        for i in range(n):
            obj = getattr(self.progs[i % 3].mod, "n%d" % i)
            for p in self.progs:
                p.mod.__dict__.setdefault("n%d" % i, obj)

    def __getattr__(self, k):
        for p in self.__dict__["progs"]:
            if k in p.mod.__dict__:
                return p.mod.__dict__[k]
        raise AttributeError(k)

    def close(self):
        for p in self.progs:
            p.close()


def _check_static(n, kinds, adj, forms_mode, placement="module"):
    forms = [[FORMS[forms_mode] if forms_mode < MIXED else FORMS[(i + 2 * j) % len(FORMS)] for j in range(n)] for i in range(n)]
    sb = Sandbox(kinds="memory")
    if placement == "spread":
        from obligations.c03 import _chunks

        full = gen_graph_source(n, kinds, adj, [["bare"] * n for _ in range(n)], module="vpgraph")
        ch = _chunks(full)
        prog = _Spread(n, ch, ch["head"])
        src = None
    else:
        prog, modname = _program_for(placement)
        src = gen_graph_source(n, kinds, adj, forms, module=modname)
    try:
        if src is not None:
            prog.exec(src)
        for i in range(n):
            if kinds[i] != "m":
                continue
            fn = getattr(prog, "n%d" % i)
            deps = fn.dependencies()
            got_t = sorted(_name(f) for f in deps.transitive_memento_fn_dependencies())
            exp_t = sorted("n%d" % j for j in reach(n, adj, i) if kinds[j] == "m" and j != i)
            check("transitive-memento-dependencies-are-exactly-the-reachable-ones", got_t == exp_t, (i, got_t, exp_t))
            got_d = sorted(_name(f) for f in deps.direct_memento_fn_dependencies())
            exp_d = sorted("n%d" % j for j in range(n) if adj[i][j] and kinds[j] == "m" and j != i)
            check("direct-memento-dependencies-are-exactly-those-named-in-the-body", got_d == exp_d, (i, got_d, exp_d))
            df = deps.df()
            got_e = sorted((r["src"].split(":")[-1], r["target"].split(":")[-1]) for _, r in df.iterrows())
            exp_e = set()
            todo, seen = [i], set()
            while todo:
                u = todo.pop()
                if u in seen:
                    continue
                seen.add(u)
                for v in reach_via_plain(n, kinds, adj, u):
                    if v != u:
                        exp_e.add(("n%d" % u, "n%d" % v))
                        todo.append(v)
            check("dependency-graph-links-memento-functions-reached-without-passing-another", got_e == sorted(exp_e), (i, got_e, sorted(exp_e)))
            if exp_t:
                cover("has-transitive-deps")
            if set(exp_t) != set(exp_d):
                cover("indirect-dep")
            if i in reach(n, adj, i):
                cover("cycle")
        # the program runs (static edges never refuse)
        if kinds[0] == "m":
            prog.n0(0)
    finally:
        prog.close()
        import sys

        sys.modules.pop("vppk", None)
        sb.close()


@obligation(
    "C14.closure_n3",
    covers=("has-transitive-deps", "indirect-dep", "cycle", "plain-node"),
    split={"kmask": list(range(8))},
    tier_split={"quick": {"fp": [(0, 0), (MIXED, 0), (MIXED, 1), (0, 3)]},
                "thorough": {"fp": [(f, p) for f in range(MIXED + 1) for p in range(3)] + [(0, 3)]}},
    bounds="ALL reference graphs over 3 nodes (2^9 adjacency matrices incl. self loops and cycles) x all 8 kind assignments {memento, plain} "
           "x reference-form modes {bare name, module.attr, alias, decorator-wrapped, bare name also bound in a nested lambda / def, mixed per "
           "edge} x placement of the code {top-level module, package __init__, submodule of a package, nodes spread over the __init__ and two "
           "submodules of one package} (quick: bare+module, mixed+module, mixed+package __init__, bare+spread; thorough: all 19 combinations)",
    variables="choice: adjacency mask (9 bits), kinds (3 bits), form mode",
    budget_s={"quick": 170, "thorough": 600},
    choice_vars=3,
)
def closure_n3(amask: int, kmask: int, fp: tuple):
    amask = _bits(amask, 9)
    forms_mode, pl = fp
    with concrete_region():
        kinds = ["m" if (kmask >> i) & 1 else "p" for i in range(3)]
        if "p" in kinds:
            cover("plain-node")
        adj = _graph_from(3, amask)
        note((kinds, adj))
        _check_static(3, kinds, adj, forms_mode, PLACEMENTS[pl])


@obligation(
    "C14.closure_n4",
    covers=("has-transitive-deps", "indirect-dep", "cycle", "plain-node"),
    split={"kmask": list(range(1, 16)), "hi": list(range(8))},
    tiers=("thorough",),
    bounds="ALL reference graphs over 4 nodes without self loops (2^12) x 15 kind assignments with at least one memento node; mixed forms",
    variables="choice: adjacency mask (12 bits), kinds (4 bits)",
    budget_s={"thorough": 2400},
    choice_vars=2,
)
def closure_n4(lo: int, hi: int, kmask: int):
    lo = _bits(lo, 9)
    with concrete_region():
        amask = (hi << 9) | lo
        kinds = ["m" if (kmask >> i) & 1 else "p" for i in range(4)]
        if "p" in kinds:
            cover("plain-node")
        adj = _graph_from(4, amask, allow_self=False)
        _check_static(4, kinds, adj, MIXED)


@obligation(
    "C14.refusal",
    covers=("refused", "allowed-in-closure", "allowed-as-argument", "hidden-from-plain-helper", "plain-target",
            "root-invoked-through-modifier-clone", "root-invoked-through-a-chain-of-modifiers", "after-an-earlier-call-that-passed-the-target-as-argument"),
    split={"kmask": [1, 3, 5, 7], "hj": [1, 2]},
    bounds="graphs over 3 nodes without self loops (2^6) with n0 a memento function with automatic version, plus one hidden dynamic call "
           "(globals()[name]) from n0 or from a plain helper called by n0 to node hj, with/without the target passed as an argument; n0 invoked directly, through .force_local(), .partial(0), or a chain of two modifiers (.partial(0).force_local(), .force_local().with_context_args(..)); optionally after an earlier call of n0 that legitimately passed the target as an argument",
    variables="choice: adjacency mask (6 bits), kinds, hidden source, argument bit, invocation form",
    budget_s={"quick": 170, "thorough": 600},
    choice_vars=4,
)
def refusal(amask: int, kmask: int, hsrc: int, hj: int, as_arg: bool, via: int, primed: bool):
    pr = True if primed else False
    amask = _bits(amask, 6)
    hsrc = pick(hsrc, 3)
    via = pick(via, 5)
    arg = True if as_arg else False
    with concrete_region():
        n = 3
        kinds = ["m" if (kmask >> i) & 1 else "p" for i in range(n)]
        adj = _graph_from(n, amask, allow_self=False)
        # the hidden call is made by n0 itself or by a plain helper that n0 calls statically
        assume(hsrc != hj)
        if hsrc != 0:
            assume(kinds[hsrc] == "p" and adj[0][hsrc])
            cover("hidden-from-plain-helper")
        forms = [["bare"] * n for _ in range(n)]
        src = gen_graph_source(n, kinds, adj, forms, hidden=(hsrc, hj), module=MOD)
        sb = Sandbox(kinds="memory")
        prog = Program(MOD)
        try:
            prog.exec(src)
            target = getattr(prog, "n%d" % hj)
            root = [prog.n0, prog.n0.force_local(), prog.n0.partial(0), prog.n0.partial(0).force_local(),
                    prog.n0.force_local().with_context_args({"k": 1})][via]
            if via:
                cover("root-invoked-through-modifier-clone")
            if via >= 3:
                cover("root-invoked-through-a-chain-of-modifiers")
            if pr and not arg and kinds[hj] == "m":
                # an EARLIER, legitimate call of the same function had the target passed as an argument: what that call was
                # allowed to do must not widen what the next call may do
                cover("after-an-earlier-call-that-passed-the-target-as-argument")
                try:
                    root(fns=[target]) if via in (2, 3) else root(0, fns=[target])
                except UndeclaredDependencyError:
                    pass
            try:
                if arg and kinds[hj] == "m":
                    root(fns=[target]) if via in (2, 3) else root(0, fns=[target])
                else:
                    root() if via in (2, 3) else root(0)
                outcome = "result"
            except UndeclaredDependencyError:
                outcome = "refused"
            in_closure = hj in reach(n, adj, 0)
            if kinds[hj] != "m":
                cover("plain-target")
                expect = "result"
            elif in_closure:
                cover("allowed-in-closure")
                expect = "result"
            elif arg:
                cover("allowed-as-argument")
                expect = "result"
            else:
                cover("refused")
                expect = "refused"
            check("call-outside-the-closure-is-refused-and-only-that", outcome == expect,
                  (outcome, expect, kinds, adj, (hsrc, hj), arg, via))
        finally:
            prog.close()
            sb.close()


# ------------------------------------------------------------------------------------------------
# memento functions that are static methods of classes: same method name in two classes
# ------------------------------------------------------------------------------------------------

STATIC_SRC = (
    "import sys\n"
    "class Raw:\n"
    "    @staticmethod\n"
    "    @m.memento_function\n"
    "    def load(x, fns=None):\n"
    "        _trace.append('Raw.load')\n"
    "        return x + 1\n"
    "    @staticmethod\n"
    "    @m.memento_function\n"
    "    def fetch(x, fns=None):\n"
    "        _trace.append('Raw.fetch')\n"
    "        return x + 100\n"
    "class Clean:\n"
    "    @staticmethod\n"
    "    @m.memento_function\n"
    "    def load(x, fns=None):\n"
    "        _trace.append('Clean.load')\n"
    "        owner = vars(sys.modules[__name__])['R' + 'aw']\n"
    "        return getattr(owner, TARGET[0])(x) * 2%s\n"
    "TARGET = ['load']\n"
)


@obligation(
    "C14.refusal_static_methods",
    covers=("same-method-name-in-another-class", "other-method-name", "statically-named", "passed-as-argument"),
    bounds="memento functions that are static methods: Clean.load (automatic version) dynamically calls Raw.load (the SAME method name in "
           "another class) or Raw.fetch, which its body names statically or not, passed as an argument or not, invoked directly or "
           "through a partial() clone: refused exactly when the callee is neither in the closure nor an argument",
    variables="choice: callee, statically named bit, argument bit, clone bit",
    budget_s={"quick": 120, "thorough": 300},
    choice_vars=4,
)
def refusal_static_methods(same_name: bool, named: bool, as_arg: bool, via_clone: bool):
    sn = True if same_name else False
    nm = True if named else False
    ar = True if as_arg else False
    vc = True if via_clone else False
    with concrete_region():
        callee = "load" if sn else "fetch"
        cover("same-method-name-in-another-class" if sn else "other-method-name")
        static_ref = (" + (0 if True else Raw.%s(x))" % callee) if nm else ""
        sb = Sandbox(kinds="memory")
        prog = Program(MOD)
        try:
            prog.exec(STATIC_SRC % static_ref)
            prog.TARGET[0] = callee
            root = prog.Clean.load
            target = getattr(prog.Raw, callee)
            call = root.partial(1) if vc else (lambda **k: root(1, **k))
            try:
                call(fns=[target]) if ar else call()
                outcome = "result"
            except UndeclaredDependencyError:
                outcome = "refused"
            if nm:
                cover("statically-named")
                expect = "result"
            elif ar:
                cover("passed-as-argument")
                expect = "result"
            else:
                expect = "refused"
            check("call-outside-the-closure-is-refused-and-only-that", outcome == expect, (outcome, expect, callee, nm, ar, vc))
        finally:
            prog.close()
            sb.close()


# ------------------------------------------------------------------------------------------------
# names that are undefined when the closure is first computed and get bound later
# ------------------------------------------------------------------------------------------------

LATE_FORMS = ["bare-global", "module-attribute", "instance-attribute", "class-attribute"]
LATE_TARGETS = ["existing-memento-function", "existing-plain-function-calling-a-memento-function", "new-memento-function"]
LATE_SRC = (
    "import types\n"
    "helpers = types.ModuleType('vplatehelpers')\n"
    "class Box:\n    pass\n"
    "box = Box()\n"
    "@m.memento_function\n"
    "def leaf(x):\n    _trace.append(('leaf', x)); return x + 1\n"
    "def via_plain(x):\n    return leaf(x) + 1\n"
    "@m.memento_function\n"
    "def f(x):\n"
    "    _trace.append(('f', x))\n"
    "    return %s(x)\n"
)


@obligation(
    "C14.late_binding",
    covers=("closure-computed-before-the-name-was-bound", "bound-without-defining-anything"),
    split={"form": list(range(len(LATE_FORMS)))},
    bounds="f calls a name that is undefined when f is defined - a bare global, an attribute of a module object, of an instance (own "
           "namespace) or of its class - and the name is bound afterwards to an existing memento function (an alias: nothing new is "
           "defined), to an existing plain function that calls one, or to a newly defined memento function; f's closure / version are "
           "queried before the binding or not; f is invoked directly or through a force_local() clone: afterwards the closure contains "
           "the target, the call is not refused, and version and closure equal those of a program defined with the binding in place",
    variables="choice: form, target kind, queried-before bit, clone bit",
    budget_s={"quick": 120, "thorough": 300},
    choice_vars=4,
)
def late_binding(form: int, target: int, queried: bool, via_clone: bool):
    target = pick(target, len(LATE_TARGETS))
    q = True if queried else False
    vc = True if via_clone else False
    with concrete_region():
        from vp.memenv import clear_process_state

        callee = ["late", "helpers.late", "box.late", "box.late"][form]
        bind = {
            0: "late = %s\n", 1: "helpers.late = %s\n", 2: "box.late = %s\n", 3: "Box.late = staticmethod(%s)\n",
        }[form]
        tkind = LATE_TARGETS[target]
        new_def = "@m.memento_function\ndef fresh_leaf(x):\n    _trace.append(('fresh_leaf', x)); return x + 2\n"
        value = {"existing-memento-function": "leaf", "existing-plain-function-calling-a-memento-function": "via_plain",
                 "new-memento-function": "fresh_leaf"}[tkind]
        want_names = {"existing-memento-function": ["leaf"], "existing-plain-function-calling-a-memento-function": ["leaf"],
                      "new-memento-function": ["fresh_leaf"]}[tkind]

        def closure(fn):
            return sorted(_name(d) for d in fn.dependencies().transitive_memento_fn_dependencies())

        # reference: the same program with the binding in place from the start
        sb = Sandbox(kinds="memory")
        clear_process_state()
        prog = Program(MOD)
        try:
            head, tail = (LATE_SRC % callee).split("@m.memento_function\ndef f(x)")
            prog.exec(head + (new_def if tkind == "new-memento-function" else "") + (bind % value) + "@m.memento_function\ndef f(x)" + tail)
            ref_closure, ref_version = closure(prog.f), prog.f.version()
            check("reference-closure-contains-the-target", all(n_ in ref_closure for n_ in want_names), (ref_closure, want_names))
        finally:
            prog.close()
            sb.close()
        sb = Sandbox(kinds="memory")
        clear_process_state()
        prog = Program(MOD)
        try:
            prog.exec(LATE_SRC % callee)
            f = prog.f
            if q:
                cover("closure-computed-before-the-name-was-bound")
                c0 = closure(f)
                f.version()
                check("target-not-in-the-closure-while-the-name-is-unbound", not any(n_ in c0 for n_ in want_names), c0)
            if tkind == "new-memento-function":
                prog.exec(new_def)
            else:
                cover("bound-without-defining-anything")
            prog.exec(bind % value)
            got_closure = closure(f)
            check("closure-contains-the-late-bound-target", all(n_ in got_closure for n_ in want_names), (got_closure, want_names, callee, tkind, q))
            check("closure-equals-that-of-the-program-defined-with-the-binding", got_closure == ref_closure, (got_closure, ref_closure))
            check("version-equals-that-of-the-program-defined-with-the-binding", f.version() == ref_version, (f.version(), ref_version, callee, tkind, q))
            root = f.force_local() if vc else f
            try:
                r = root(1)
                outcome = "result"
            except UndeclaredDependencyError:
                r, outcome = None, "refused"
            check("call-to-the-late-bound-target-is-not-refused", outcome == "result", (callee, tkind, q, vc))
            check("result", r == {"leaf": 2, "via_plain": 3, "fresh_leaf": 3}[value], r)
        finally:
            prog.close()
            sb.close()
