"""
C15 - batch evaluation equals element-wise evaluation, in order.
"""
from twosigma.memento.metadata import ResultType

from vp.engine import assume, check, cover, note, obligation, pick
from vp.memenv import Program, Sandbox, concrete_region

SRC = (
    "@m.memento_function(version='1')\n"
    "def f(p, x):\n"
    "    _trace.append((p, x))\n"
    "    if x == 3:\n"
    "        raise ValueError('bad %r' % (x,))\n"
    "    return p * 100 + x\n"
)
ELEMS = [1, 2, 3]  # 3 fails
STORES = ["memory", "fs+cache:1", "fs"]


MARK = ". Original stack trace"


def _exc_key(e):
    """class, original message, and whether this is the exception object the body raised or one replayed from the store
    (a replayed one carries the original stack trace in its message) - the volatile trace text itself is not compared"""
    return (type(e).__name__, str(e).split(MARK)[0], "replayed-from-store" if MARK in str(e) else "raised-by-body")


def _outcome(thunk):
    try:
        return ("value", thunk())
    except Exception as e:  # noqa
        return ("raise",) + _exc_key(e)


def _norm(r):
    if isinstance(r, Exception):
        return ("exc",) + _exc_key(r)
    return ("val", r)


def _store_state(f, storage):
    out = []
    for mem in f.list_mementos():
        fa = mem.invocation_metadata.fn_reference_with_args
        v = storage.read_result(mem)
        out.append((fa.arg_hash, mem.invocation_metadata.result_type.name, _norm(v if not hasattr(v, "to_exception") else v.to_exception())))
    return sorted(out)


def _elements(n, e0, e1, e2, e3):
    es = [e0, e1, e2, e3][:n]
    return [ELEMS[e] for e in es]


SRC_TYPED = (
    "@m.memento_function(version='1')\n"
    "def f(p, x):\n"
    "    _trace.append((p, type(x).__name__, x))\n"
    "    if x is False:\n"
    "        raise ValueError('bad %r' % (x,))\n"
    "    return '%s:%r' % (type(x).__name__, x)\n"
)
ELEMS_TYPED = [1, 1.0, True, False, 0]  # equal and equally hashed for Python (1 == 1.0 == True, 0 == False), distinct calls for memento


def _run(n, e0, e1, e2, e3, pre, raise_first, prefix, api, store, ELEMS=ELEMS, SRC=SRC, failing=3, purge=0, one_shot=False, ctx=False):
    n = pick(n, 5) if not isinstance(n, int) else n
    es = [pick(e, len(ELEMS)) for e in [e0, e1, e2, e3][:n]]
    xs = [ELEMS[e] for e in es]
    pre = pick(pre, 8)
    rf = True if raise_first else False
    px = True if prefix else False
    with concrete_region():
        if len(set(xs)) < len(xs):
            cover("duplicates")
        if any(x is failing or (x == failing and type(x) is type(failing)) for x in xs):
            cover("failing-element")
        if len({(type(x), x) for x in xs}) > len(set(xs)):
            cover("python-equal-but-distinct-elements")
        if SRC is SRC_REC and any(xs[i] == 2 and 1 in xs[i + 1:] for i in range(len(xs))):
            cover("an-element-memoized-by-an-earlier-element's-body")
        if SRC is SRC_UNST and 4 in xs:
            cover("element-failing-outside-the-body")
        if n == 0:
            cover("empty-batch")
        results = []
        for mode in ("batch", "elementwise"):
            sb = Sandbox(kinds=store)
            prog = Program("vpc15")
            try:
                prog.exec(SRC)
                f = prog.f
                if ctx:
                    # the whole scenario under context arguments: elements memoized WITHOUT context beforehand are other calls
                    cover("under-context-arguments")
                    for x in ELEMS[:2]:
                        _outcome(lambda: f(5, x))
                    prog.trace.clear()
                    f = f.with_context_args({"c": 1})
                pre_xs = [x for i, x in enumerate(ELEMS) if pre & (1 << i)]
                for x in pre_xs:
                    _outcome(lambda: f(5, x))
                if pre_xs:
                    cover("some-memoized-before")
                cache = getattr(sb.storage(), "_memory_cache", None)
                if purge and cache is not None and pre_xs:
                    # part of what was memoized beforehand is only on disk any more: purge == 1 the first, 2 the last, 3 all of them
                    cover("memoized-on-disk-only-next-to-cached-ones")
                    victims = {1: pre_xs[:1], 2: pre_xs[-1:], 3: pre_xs}[purge]
                    for x in victims:
                        cache.forget_call(f.fn_reference().with_args(5, x).fn_reference_with_arg_hash())
                n0 = len(prog.trace)
                if mode == "batch":
                    if api == "call_batch":
                        if px:
                            out = _outcome(lambda: f.partial(5).call_batch([{"x": x} for x in xs], raise_first_exception=rf))
                        else:
                            out = _outcome(lambda: f.call_batch([{"p": 5, "x": x} for x in xs], raise_first_exception=rf))
                        if out[0] == "value":
                            out = ("value", [_norm(r) for r in out[1]])
                    else:
                        if one_shot:
                            cover("one-shot-iterable-range")
                        out = _outcome(lambda: f.partial(p=5).map_over_range(x=(iter(list(xs)) if one_shot else list(xs))))
                        if out[0] == "value":
                            out = ("value", {k: _norm(v) for k, v in out[1].items()})
                else:
                    singles = []
                    for x in xs:
                        o = _outcome(lambda: f.partial(5)(x) if px else f(5, x))
                        singles.append(("val", o[1]) if o[0] == "value" else ("exc",) + tuple(o[1:]))
                    first_exc = next((s for s in singles if s[0] == "exc"), None)
                    if api == "call_batch":
                        if rf and first_exc:
                            out = ("raise",) + tuple(first_exc[1:])
                        else:
                            out = ("value", singles)
                    else:
                        if first_exc:
                            out = ("raise",) + tuple(first_exc[1:])
                        else:
                            out = ("value", {x: s for x, s in zip(xs, singles)})
                ran = list(prog.trace)[n0:]
                results.append((out, sorted(ran, key=repr), _store_state(f, sb.storage())))
                if mode == "batch":
                    # (an element whose outcome cannot be stored - SRC_UNST's 4 - is never memoized: it runs whenever it is asked
                    # for, in a batch as in individual calls; the at-most-once claim is about storable outcomes)
                    ran_s = [t for t in ran if not (SRC is SRC_UNST and t[-1] == 4)]
                    check("each-distinct-element-runs-at-most-once", len(ran_s) == len(set(ran_s)), ran)
                    pre_keys = [(type(x).__name__, x) for x in pre_xs]
                    check("memoized-elements-do-not-run", all((type(t[-1]).__name__, t[-1]) not in pre_keys for t in ran_s), (ran, pre_xs))
            finally:
                prog.close()
                sb.close()
        (bo, br, bs), (eo, er, es_) = results
        check("batch-result-equals-elementwise-position-by-position", bo == eo, (bo, eo))
        check("same-bodies-executed", br == er, (br, er))
        check("same-store-state-afterwards", bs == es_, (bs, es_))
        if n == 0 and api == "call_batch":
            check("empty-batch-returns-empty-list", bo == ("value", []), bo)


@obligation(
    "C15.batch",
    covers=("duplicates", "failing-element", "empty-batch", "some-memoized-before", "under-context-arguments"),
    split={"api": ["call_batch", "map_over_range"], "store": ["memory", "fs+cache:1"], "n": [0, 1, 2, 3], "ctx": [False, True]},
    bounds="batches of length 0..3 over elements {1, 2, failing 3} (so duplicates occur) x every subset memoized beforehand (8) x "
           "raise_first_exception x partial prefix x {call_batch, map_over_range} x {memory, fs+cache} x {plain, the function carrying "
           "context arguments while the same elements are also memoized without context}; oracle = the same elements "
           "evaluated one by one from an identically prepared store",
    variables="choice: elements, pre-memoized subset, raise_first, prefix, context bit",
    budget_s={"quick": 170, "thorough": 900},
    choice_vars=7,
)
def batch(e0: int, e1: int, e2: int, e3: int, pre: int, raise_first: bool, prefix: bool, api: str, store: str, n: int, ctx: bool = False):
    _run(n, e0, e1, e2, e3, pre, raise_first, prefix, api, store, ctx=True if ctx else False)


@obligation(
    "C15.batch_n4",
    covers=("duplicates", "failing-element", "some-memoized-before"),
    split={"api": ["call_batch", "map_over_range"], "store": ["memory", "fs"], "e0": [0, 1, 2], "e1": [0, 1, 2]},
    tiers=("thorough",),
    bounds="batches of length 4 (81 element sequences) x 8 pre-memoized subsets x flags, thorough tier",
    variables="choice: elements, pre-memoized subset, raise_first, prefix",
    budget_s={"thorough": 900},
    choice_vars=7,
)
def batch_n4(e0: int, e1: int, e2: int, e3: int, pre: int, raise_first: bool, prefix: bool, api: str, store: str):
    _run(4, e0, e1, e2, e3, pre, raise_first, prefix, api, store)


@obligation(
    "C15.batch_equal_values",
    covers=("python-equal-but-distinct-elements", "failing-element", "some-memoized-before"),
    split={"store": ["memory", "fs+cache:1"], "n": [2, 3], "e0": [0, 1, 2, 3, 4], "api": ["call_batch", "map_over_range"]},
    bounds="batches of length 2..3 over {1, 1.0, True, failing False, 0} - values that Python treats as equal (and hashes equally) but "
           "that are distinct calls with type-dependent results - x 8 pre-memoized subsets (of the first three) x raise_first_exception x "
           "partial prefix, {call_batch, map_over_range}, {memory, fs+cache}; oracle = element-wise evaluation",
    variables="choice: elements, pre-memoized subset, raise_first, prefix",
    budget_s={"quick": 170, "thorough": 600},
    choice_vars=7,
)
def batch_equal_values(e0: int, e1: int, e2: int, e3: int, pre: int, raise_first: bool, prefix: bool, store: str, n: int, api: str = "call_batch"):
    if api == "map_over_range":
        assume(not raise_first)
        assume(not prefix)
    _run(n, e0, e1, e2, e3, pre, raise_first, prefix, api, store, ELEMS=ELEMS_TYPED, SRC=SRC_TYPED, failing=False)


SRC_UNST = (
    "@m.memento_function(version='1')\n"
    "def f(p, x):\n"
    "    _trace.append((p, x))\n"
    "    if x == 3:\n"
    "        raise ValueError('bad %r' % (x,))\n"
    "    if x == 4:\n"
    "        return (i for i in range(3))  # not a result memento can store: the call fails OUTSIDE the body\n"
    "    return p * 100 + x\n"
)
ELEMS_UNST = [1, 4, 3]


@obligation(
    "C15.batch_unstorable",
    covers=("element-failing-outside-the-body", "failing-element", "some-memoized-before"),
    split={"store": ["memory", "fs+cache:1"], "n": [2, 3], "api": ["call_batch", "map_over_range"]},
    bounds="batches of length 2..3 over {1, 4 whose body returns a generator (the call fails after the body, when the result is "
           "classified / stored), failing 3} x 8 pre-memoized subsets x raise_first_exception x partial prefix x {call_batch, "
           "map_over_range} x {memory, fs+cache}; oracle = element-wise evaluation (the failure appears in its slot, later elements "
           "are still evaluated and memoized)",
    variables="choice: elements, pre-memoized subset, raise_first, prefix",
    budget_s={"quick": 170, "thorough": 600},
    choice_vars=7,
)
def batch_unstorable(e0: int, e1: int, e2: int, e3: int, pre: int, raise_first: bool, prefix: bool, api: str, store: str, n: int):
    _run(n, e0, e1, e2, e3, pre, raise_first, prefix, api, store, ELEMS=ELEMS_UNST, SRC=SRC_UNST)


SRC_REC = (
    "@m.memento_function(version='1')\n"
    "def f(p, x):\n"
    "    _trace.append((p, x))\n"
    "    if x == 3:\n"
    "        raise ValueError('bad %r' % (x,))\n"
    "    return (f(p, x - 1) if x > 1 else 0) + p * 100 + x\n"
)


@obligation(
    "C15.batch_recursive",
    covers=("duplicates", "failing-element", "some-memoized-before", "an-element-memoized-by-an-earlier-element's-body"),
    split={"store": ["memory", "fs+cache:1"], "n": [2, 3], "api": ["call_batch", "map_over_range"]},
    bounds="batches of length 2..3 over {1, 2, failing 3} of a RECURSIVE function (f(2) calls f(1)), so that the body of an earlier "
           "element can memoize a later element of the same batch; x 8 pre-memoized subsets x raise_first_exception x partial prefix x "
           "{call_batch, map_over_range} x {memory, fs+cache}; oracle = element-wise evaluation",
    variables="choice: elements, pre-memoized subset, raise_first, prefix",
    budget_s={"quick": 170, "thorough": 600},
    choice_vars=7,
)
def batch_recursive(e0: int, e1: int, e2: int, e3: int, pre: int, raise_first: bool, prefix: bool, api: str, store: str, n: int):
    if n >= 2:
        # (cover label: element 2 before element 1)
        pass
    _run(n, e0, e1, e2, e3, pre, raise_first, prefix, api, store, SRC=SRC_REC)


@obligation(
    "C15.batch_cache_mix",
    covers=("memoized-on-disk-only-next-to-cached-ones", "one-shot-iterable-range", "some-memoized-before"),
    split={"n": [2, 3], "api": ["call_batch", "map_over_range"], "purge": [1, 2, 3]},
    bounds="batches of length 2..3 over {1, 2, failing 3} on the filesystem back-end WITH a memory cache, where of the elements memoized "
           "beforehand the first / the last / all have been dropped from the cache (so the bulk look-up mixes cache hits, disk hits and "
           "misses in every order); map_over_range also with a one-shot iterator as the range; oracle = element-wise evaluation",
    variables="choice: elements, pre-memoized subset, purge pattern, raise_first, prefix / one-shot bit",
    budget_s={"quick": 170, "thorough": 600},
    choice_vars=7,
)
def batch_cache_mix(e0: int, e1: int, e2: int, e3: int, pre: int, raise_first: bool, prefix: bool, api: str, n: int, purge: int):
    # for map_over_range the 'prefix' bit selects a one-shot iterator as the range
    one_shot = (True if prefix else False) if api == "map_over_range" else False
    _run(n, e0, e1, e2, e3, pre, raise_first, prefix if api == "call_batch" else False, api, "fs+cache:1", purge=purge, one_shot=one_shot)


# ------------------------------------------------------------------------------------------------
# long batches: any internal slicing / chunking of the bulk look-up must be invisible
# ------------------------------------------------------------------------------------------------

SRC_LONG = (
    "@m.memento_function(version='1')\n"
    "def f(x):\n"
    "    _trace.append(x)\n"
    "    if x % 97 == 5:\n"
    "        raise ValueError('bad %r' % (x,))\n"
    "    return x * 3\n"
)


@obligation(
    "C15.batch_long",
    covers=("single-element-memoized-before", "suffix-memoized-before", "every-other-memoized-before"),
    split={"api": ["call_batch", "map_over_range"], "mode": [0, 1, 2], "store": ["memory", "fs+cache:1"], "pc": [0, 1, 2, 3]},
    tier_args={"quick": {"N": 700}, "thorough": {"N": 1400}},
    bounds="a batch of N distinct elements (N = 700 quick, 1400 thorough; every 97th fails) with, memoized beforehand, exactly the element at "
           "position p / every element from position p on / every second element from p on, for EVERY p < N (single element, memory back-end; every 8th p for the other two shapes; every 32nd p on the "
           "filesystem back-end with cache): each slot holds its own element's value or failure, exactly the elements not "
           "memoized before run, once each, and afterwards all N are memoized",
    variables="choice: p, mode, api, store",
    budget_s={"quick": 170, "thorough": 900},
    choice_vars=1,
)
def batch_long(p: int, api: str, mode: int, store: str, N: int, pc: int):
    step = (1 if mode == 0 else 8) if store == "memory" else 32
    p = (pick(p, (N + 4 * step - 1) // (4 * step)) * 4 + pc) * step  # (pc: the positions are partitioned into 4 jobs)
    assume(p < N)
    with concrete_region():
        cover(["single-element-memoized-before", "suffix-memoized-before", "every-other-memoized-before"][mode])
        sb = Sandbox(kinds=store)
        prog = Program("vpc15L")
        try:
            prog.exec(SRC_LONG)
            f = prog.f
            pre = [p] if mode == 0 else list(range(p, N)) if mode == 1 else list(range(p, N, 2))
            if mode and len(pre) > 300:
                pre = pre[:300]
            for x in pre:
                _outcome(lambda: f(x))
            n0 = len(prog.trace)
            want = [("exc", "ValueError", "bad %r" % (x,)) if x % 97 == 5 else ("val", x * 3) for x in range(N)]
            if api == "call_batch":
                out = f.call_batch([{"x": x} for x in range(N)], raise_first_exception=False)
                got = [("exc", type(r).__name__, str(r).split(MARK)[0]) if isinstance(r, Exception) else ("val", r) for r in out]
                check("every-slot-holds-its-own-element's-outcome", got == want,
                      lambda: [(i, got[i], want[i]) for i in range(N) if got[i] != want[i]][:5])
            else:
                ok_xs = [x for x in range(N) if x % 97 != 5]
                res = f.map_over_range(x=ok_xs)
                bad = [(x, res.get(x)) for x in ok_xs if res.get(x) != x * 3]
                check("every-range-value-maps-to-its-own-result", bad == [] and len(res) == len(ok_xs), bad[:5])
            ran = list(prog.trace)[n0:]
            asked = list(range(N)) if api == "call_batch" else [x for x in range(N) if x % 97 != 5]
            pre_set = set(pre)
            expect_ran = sorted(x for x in asked if x not in pre_set)
            check("exactly-the-elements-not-memoized-before-run-once-each", sorted(ran) == expect_ran,
                  lambda: (p, mode, sorted(set(ran) ^ set(expect_ran))[:8], len(ran), len(expect_ran)))
            n1 = len(prog.trace)
            for x in (0, 1, p, min(N - 1, p + 1), max(0, p - 1), 255, 256, 257, N - 1):
                if api == "map_over_range" and x % 97 == 5 and x not in pre_set:
                    continue
                _outcome(lambda: f(x))
            check("all-memoized-afterwards", len(prog.trace) == n1, list(prog.trace)[n1:])
        finally:
            prog.close()
            sb.close()
