"""
C08 - a crash or I/O fault at any point of a write never poisons the filesystem store.
"""
import os

from twosigma.memento.partition import InMemoryPartition
from twosigma.memento.result import KeyOverrideResult

from vp.engine import assume, check, cover, note, obligation, pick
from vp.faultfs import VARIANTS, FaultFS, ProcessDied
from vp.fsaudit import MutationAudit
from vp.memenv import Program, Sandbox, concrete_region, restart_sandbox

SRC = (
    "@m.memento_function(version='1')\n"
    "def f(x):\n"
    "    _trace.append(('f', x))\n"
    "    return [x, 'payload']\n"
    "@m.memento_function(version='1')\n"
    "def g(y):\n"
    "    _trace.append(('g', y))\n"
    "    return [1, 'payload']\n"          # serialises to the same bytes as f(1)
    "@m.memento_function(version='1')\n"
    "def ko(x):\n"
    "    _trace.append(('ko', x))\n"
    "    return KeyOverrideResult([x, 'o'], 'override/key')\n"
    "@m.memento_function(version='1')\n"
    "def part(x):\n"
    "    _trace.append(('part', x))\n"
    "    return InMemoryPartition({'a': x, 'b': [x, 'payload'], 'c': None})\n"
    "@m.memento_function(version='1')\n"
    "def child(x):\n"
    "    _trace.append(('child', x))\n"
    "    r = InMemoryPartition({'d': [x, 'own']})\n"
    "    r._merge_parent = part(x)\n"        # the parent partition is computed (and memoized) inside the child's body
    "    return r\n"
    "@m.memento_function(version='1')\n"
    "def exc(x):\n"
    "    _trace.append(('exc', x))\n"
    "    raise ValueError('boom %r' % (x,))\n"
)

# scenario: (name, steps run without faults, the faulted step, functions verified afterwards)
SCENARIOS = [
    ("S1-cold-call", [], "f", ["f", "g"]),
    ("S2-same-bytes-as-stored-result", ["f"], "g", ["g", "f"]),
    ("S3-key-override", [], "ko", ["ko"]),
    ("S4-partition", [], "part", ["part", "f"]),
    ("S5-rememoize-after-forget", ["f", "forget-f"], "f", ["f", "g"]),
    ("S6-exception-result", [], "exc", ["exc"]),
    ("S7-second-call-of-function-with-stored-sibling", ["g"], "f", ["f", "g"]),
    # the fault hits while the PARENT partition (computed inside the child's body) or the child itself is being written
    ("S8-merged-partition-whose-parent-is-computed-inside", [], "child", ["child", "part"]),
]
STORES = ["fs", "fs+cache:1", "fs+meta"]


def _call(prog, name):
    """returns a comparable outcome"""
    fn = {"f": lambda: prog.f(1), "g": lambda: prog.g(1), "ko": lambda: prog.ko(1), "part": lambda: prog.part(1), "child": lambda: prog.child(1),
          "exc": lambda: prog.exc(1), "forget-f": lambda: prog.f.forget(1)}[name]
    try:
        r = fn()
    except ValueError as e:
        return ("raised", type(e).__name__, str(e).split(". Original stack trace")[0])
    if isinstance(r, InMemoryPartition) or hasattr(r, "list_keys"):
        return ("partition", {k: r.get(k) for k in r.list_keys()})
    return ("value", r)


EXPECTED = {
    "f": ("value", [1, "payload"]), "g": ("value", [1, "payload"]), "ko": ("value", [1, "o"]),
    "part": ("partition", {"a": 1, "b": [1, "payload"], "c": None}), "exc": ("raised", "ValueError", "boom 1"),
    "child": ("partition", {"a": 1, "b": [1, "payload"], "c": None, "d": [1, "own"]}),
}


def _fresh(kind, root=None):
    sb = Sandbox(kinds=kind, root=root)
    prog = Program("vpc08")
    prog.mod.__dict__["KeyOverrideResult"] = KeyOverrideResult
    prog.mod.__dict__["InMemoryPartition"] = InMemoryPartition
    prog.exec(SRC)
    return sb, prog


_TRACES = {}


def fault_free_trace(kind, scenario):
    """the mutating operations of the faulted call when nothing fails - recomputed from the current code once per worker process"""
    key = (kind, scenario[0])
    if key not in _TRACES:
        _TRACES[key] = _fault_free_trace(kind, scenario)
    return _TRACES[key]


def _fault_free_trace(kind, scenario):
    name, pre, faulted, verify = scenario
    sb, prog = _fresh(kind)
    try:
        for s in pre:
            _call(prog, s)
        with FaultFS(sb.root) as fs:
            _call(prog, faulted)
        return list(fs.ops)
    finally:
        prog.close()
        sb.close()


K_MAX = 60


def _run(si, kind, k, vi, tsel, dense=False):
    scenario = SCENARIOS[si]
    name, pre, faulted, verify = scenario
    ops = fault_free_trace(kind, scenario)
    check("harness:operation-index-range-covers-the-whole-trace", len(ops) <= K_MAX, len(ops))
    assume(k < len(ops))
    opkind, oppath, opsize = ops[k]
    variant = VARIANTS[vi]
    if variant in ("die-partial", "err-partial"):
        assume(opkind == "write")
        # landed length: 0, 1, half, all-but-one (quick) or every length for short files
        if dense:
            # thorough: every landed length for short files, 24 evenly spread ones (with both ends) for longer files
            choices = list(range(opsize)) if opsize <= 48 else sorted({0, 1, opsize - 1} | {(opsize * j) // 24 for j in range(24)})
        else:
            choices = sorted({0, 1, opsize // 2, max(0, opsize - 1)})
        assume(tsel < len(choices))
        t = choices[tsel]
        assume(t < opsize)
    else:
        assume(tsel == 0)
        t = 0
        if variant == "die-after" and opkind == "write":
            pass
    note((name, kind, k, opkind, oppath[-40:], variant, t))
    cover(variant)
    cover("op:" + opkind)
    if oppath.endswith(".link"):
        cover("fault-on-link-file")
    sb, prog = _fresh(kind)
    try:
        for s in pre:
            _call(prog, s)
        died = False
        with MutationAudit([sb.root]) as audit, FaultFS(sb.root, plan=(k, variant, t)) as fs:
            try:
                out1 = _call(prog, faulted)
            except ProcessDied:
                died = True
                out1 = None
        check("fault-fired", fs.fired, (k, ops))
        # the wrappers must see every mutation the audit hook sees (otherwise a write primitive is not covered)
        check("faultfs-covers-all-mutating-primitives", (not audit.events) or len(fs.ops) > 0, (fs.ops[:3], audit.events[:5]))
        if died:
            cover("died")
            restart_sandbox(sb, kind)
        else:
            cover("error-reported")
            # an I/O error during memoization is swallowed: the faulted call itself returns the correct outcome
            check("faulted-call-returns-correct-outcome-despite-io-error", out1 == EXPECTED[faulted], (out1, name, k, variant, t))
        # phase 2: every function of the scenario still answers correctly and raises nothing unexpected
        for fn in verify:
            try:
                out = _call(prog, fn)
            except Exception as e:  # noqa
                check("call-after-fault-raises-nothing", False, (fn, type(e).__name__, str(e)[:200], name, k, opkind, oppath[-50:], variant, t))
            check("call-after-fault-returns-correct-value", out == EXPECTED[fn], (fn, out, name, k, opkind, oppath[-50:], variant, t))
        # phase 3: memoization has recovered: nothing is recomputed any more
        n0 = len(prog.trace)
        for fn in verify:
            out = _call(prog, fn)
            check("third-call-correct", out == EXPECTED[fn], (fn, out))
        ran = list(prog.trace)[n0:]
        check("memoization-recovers-after-a-successful-write", ran == [], (ran, name, k, opkind, oppath[-50:], variant, t))
        # and also after a further restart: whatever was only in the memory cache may be recomputed ONCE, then it is durable
        restart_sandbox(sb, kind)
        for fn in verify:
            out = _call(prog, fn)
            check("after-restart-correct", out == EXPECTED[fn], (fn, out))
        restart_sandbox(sb, kind)
        n1 = len(prog.trace)
        for fn in verify:
            out = _call(prog, fn)
            check("after-second-restart-correct", out == EXPECTED[fn], (fn, out))
        check("durably-memoized-after-restarts", list(prog.trace)[n1:] == [], (list(prog.trace)[n1:], name, k, opkind, oppath[-50:], variant, t))
    finally:
        prog.close()
        sb.close()


@obligation(
    "C08.faults",
    covers=tuple(VARIANTS) + ("op:makedirs", "op:open", "op:write", "fault-on-link-file", "died", "error-reported"),
    split={"si": list(range(len(SCENARIOS))), "store": [0, 1, 2]},
    bounds="8 memoization scenarios (cold call; result with the same bytes as a stored one; key override; partition of 3 members; "
           "re-memoize after forget; exception result; sibling stored; merged partition whose parent is computed and stored inside the faulted call) x EVERY mutating file-system operation issued during the faulted call "
           "(the fault-free trace is recomputed from the current code on every run) x 5 fault variants (die before / after, die after t "
           "bytes, ENOSPC before, ENOSPC/EFBIG after t bytes) x landed length t in {0, 1, half, all-but-one} (thorough: every length up to 48 bytes, 24 spread lengths beyond) x {fs, fs+cache, fs+separate "
           "metadata path}; then restart, call everything again (correct, no exception), again (nothing recomputed), restart, again",
    variables="choice: k (operation index), variant, landed-length selector",
    stubs=("FaultFS: Python-level wrappers around open / write / makedirs / unlink / rmdir / rename / rmtree for paths under the store root; "
           "'death' = BaseException + all later mutations dropped",),
    budget_s={"quick": 300, "thorough": 1500},
    tier_args={"quick": {"dense": False}, "thorough": {"dense": True}},
    choice_vars=3,
)
def faults(k: int, vi: int, tsel: int, si: int, store: int, dense: bool):
    k = pick(k, K_MAX)
    vi = pick(vi, len(VARIANTS))
    tsel = pick(tsel, 48 if dense else 4)
    with concrete_region():
        _run(si, STORES[store], k, vi, tsel, dense)


# ------------------------------------------------------------------------------------------------
# validation of the crash model against real process death (translator validation; no verdict about memento)
# ------------------------------------------------------------------------------------------------


def _snapshot(root):
    out = {}
    for d, dirs, files in os.walk(root):
        dirs.sort()
        for f in sorted(files):
            p = os.path.join(d, f)
            with open(p, "rb") as fh:
                data = fh.read()
            if f.endswith(".memento.json"):
                import re

                # wall-clock fields differ between two runs
                data = re.sub(rb'"(time|runtime|runtimeSeconds|correlationId|correlation_id)": ("[^"]*"|[0-9.eE+-]+)', rb'"\1": "<clock>"', data)
            out[os.path.relpath(p, root)] = data.replace(root.encode(), b"<root>").hex()
        if not dirs and not files:
            out[os.path.relpath(d, root) + "/"] = "<empty dir>"
    return out


def crash_child(root, kind, si, k, variant):
    """entry point of the real child process: run the scenario and really die (os._exit) at operation k"""
    name, pre, faulted, verify = SCENARIOS[si]
    sb, prog = _fresh(kind, root=root)
    for s_ in pre:
        _call(prog, s_)
    with FaultFS(sb.root, plan=(k, variant, 0), real_death=True):
        _call(prog, faulted)
    os._exit(0)


@obligation(
    "C08.crash_model_validation",
    covers=("die-before", "die-after", "op:write", "op:open", "op:makedirs"),
    split={"si": [0, 2, 3], "store": [0, 2]},
    bounds="translator validation of FaultFS: for scenarios S1, S3, S4 on fs and fs+separate metadata path, every mutating operation k and "
           "variants die-before / die-after: the directory tree left by the SIMULATED death (in-process, modelled buffering) is identical, "
           "file by file and byte by byte, to the tree left by a REAL child interpreter that really dies (os._exit) at the same operation "
           "with real buffered file objects",
    variables="choice: k, variant",
    budget_s={"quick": 300, "thorough": 600},
    choice_vars=2,
)
def crash_model_validation(k: int, vi: int, si: int, store: int):
    import shutil
    import subprocess
    import sys
    import tempfile

    k = pick(k, K_MAX)
    vi = pick(vi, 2)
    with concrete_region():
        variant = ["die-before", "die-after"][vi]
        kind = STORES[store]
        scenario = SCENARIOS[si]
        ops = fault_free_trace(kind, scenario)
        assume(k < len(ops))
        cover(variant)
        cover("op:" + ops[k][0])
        name, pre, faulted, verify = scenario
        # (a) simulated death
        root_a = tempfile.mkdtemp(prefix="vp-c08a-", dir="/dev/shm")
        root_b = tempfile.mkdtemp(prefix="vp-c08b-", dir="/dev/shm")
        try:
            sb, prog = _fresh(kind, root=root_a)
            try:
                for s_ in pre:
                    _call(prog, s_)
                with FaultFS(sb.root, plan=(k, variant, 0)) as fs:
                    try:
                        _call(prog, faulted)
                    except ProcessDied:
                        pass
                check("fault-fired", fs.fired, k)
                snap_a = _snapshot(root_a)
            finally:
                prog.close()
                root_keep = sb.root
                sb.root = tempfile.mkdtemp(prefix="vp-c08x-", dir="/dev/shm")  # keep root_a until compared
                sb.close()
            # (b) real death in a child interpreter
            code = ("import sys; sys.path[:0] = %r; import os; os.environ['HOME'] = %r; "
                    "from obligations import c08; c08.crash_child(%r, %r, %d, %d, %r)"
                    % ([p for p in sys.path if p], os.environ.get("HOME", "/dev/shm/vp-home"), root_b, kind, si, k, variant))
            env = dict(os.environ)
            env["MEMENTO_LOG_LEVEL"] = "CRITICAL"
            p = subprocess.run([sys.executable, "-c", code], capture_output=True, text=True, env=env, timeout=180)
            check("child-died-at-the-planned-operation", p.returncode == 77, (p.returncode, p.stderr[-400:]))
            snap_b = _snapshot(root_b)
            def _show(x):
                try:
                    return bytes.fromhex(x).decode("utf-8", "replace")[:400]
                except ValueError:
                    return x

            diff = {f: (_show(snap_a.get(f, "<absent>")), _show(snap_b.get(f, "<absent>"))) for f in sorted(set(snap_a) | set(snap_b))
                    if snap_a.get(f) != snap_b.get(f)}
            check("simulated-death-leaves-the-tree-a-real-death-leaves", not diff, (name, k, ops[k], variant, diff))
        finally:
            shutil.rmtree(root_a, ignore_errors=True)
            shutil.rmtree(root_b, ignore_errors=True)
