"""
C05 - every storage back-end behaves like one dictionary of memoized calls.
"""
from vp import storemodel as sm
from vp.engine import assume, check, cover, note, obligation, pick
from vp.memenv import Sandbox, concrete_region

BACKENDS = ["memory", "fs", "fs+meta", "fs+cache:0.004", "fs+cache:1"]
OPS = sm.build_ops(values=("small", "held-array", "none"))


def _history(kind, ops_idx, quiet=False):
    model = sm.Model()
    sb = Sandbox(kinds=kind)
    try:
        backend = sb.storage()
        sm.check_queries(backend, model, "empty:")
        for step, oi in enumerate(ops_idx):
            op = OPS[oi]
            if not sm.applicable(model, op):
                assume(False)
            sm.apply_op(backend, op)
            model.apply(op)
            if op[0] == "memoize" and op[2] == "held-array":
                cover("oversize-value")
            if op[0] == "memoize" and op[1] in model.entries and step > 0:
                cover("overwrite-or-rememoize")
            if op[0].startswith("forget"):
                cover("forget")
            if op[0] == "write_metadata":
                cover("metadata")
            if quiet and step < len(ops_idx) - 1:
                sm.check_is_memoized_only(backend, model, "quiet:")
            else:
                sm.check_queries(backend, model, "")
    finally:
        sb.close()


@obligation(
    "C05.histories",
    covers=("oversize-value", "overwrite-or-rememoize", "forget", "metadata"),
    split={"backend": [0, 3], "o0": list(range(len(OPS)))},
    bounds="all sequences of L=3 operations out of %d (memoize 4 calls x {small, an ndarray that is oversize for 4 KiB, weak-referenceable and held by the caller, None} + another value + 2 key-override "
           "writes to a shared key; forget_call x4, forget_function x3, forget_everything; write_metadata x2) from the empty store, on the "
           "memory back-end and the filesystem back-end with a 4 KiB cache; after EVERY operation ALL read-only queries (get_memento(s), "
           "is_memoized, is_all_memoized over pairs, read_result, read_metadata, list_functions, list_mementos) are compared with a "
           "dictionary. Functions f#1, f#10, ff#1 (prefix names / versions)" % len(OPS),
    variables="choice: o0 (fixed per job), o1, o2 (operation indices)",
    budget_s={"quick": 170, "thorough": 900},
    choice_vars=3,
)
def histories(o0: int, o1: int, o2: int, backend: int):
    o1 = pick(o1, len(OPS))
    o2 = pick(o2, len(OPS))
    with concrete_region():
        _history(BACKENDS[backend], [o0, o1, o2])


@obligation(
    "C05.histories_quiet",
    covers=("oversize-value", "overwrite-or-rememoize", "forget"),
    split={"backend": [3], "o0": list(range(len(OPS)))},
    tier_split={"thorough": {"backend": [3, 4], "o0": list(range(len(OPS)))}},
    bounds="as C05.histories (L=3) on the filesystem back-end with a 4 KiB cache (thorough: also 1 MiB), but BETWEEN operations only "
           "is_memoized is queried (the other queries fill the memory cache as a side effect and can mask what an operation left in it); "
           "the full comparison runs after the last operation",
    variables="choice: o0 (fixed per job), o1, o2",
    budget_s={"quick": 170, "thorough": 900},
    choice_vars=3,
)
def histories_quiet(o0: int, o1: int, o2: int, backend: int):
    o1 = pick(o1, len(OPS))
    o2 = pick(o2, len(OPS))
    with concrete_region():
        _history(BACKENDS[backend], [o0, o1, o2], quiet=True)


@obligation(
    "C05.histories_l2",
    covers=("oversize-value", "overwrite-or-rememoize", "forget", "metadata"),
    split={"backend": [1, 2, 4]},
    bounds="all sequences of L=2 operations out of %d on fs, fs with a separate metadata path, and fs with a 1 MiB cache" % len(OPS),
    variables="choice: o0, o1",
    budget_s={"quick": 170, "thorough": 600},
    choice_vars=2,
)
def histories_l2(o0: int, o1: int, backend: int):
    o0 = pick(o0, len(OPS))
    o1 = pick(o1, len(OPS))
    with concrete_region():
        _history(BACKENDS[backend], [o0, o1])


@obligation(
    "C05.histories_l3_all",
    covers=("oversize-value", "overwrite-or-rememoize", "forget", "metadata"),
    split={"backend": [1, 2, 4], "o0": list(range(len(OPS)))},
    tiers=("thorough",),
    bounds="L=3 on fs, fs with separate metadata path, fs with 1 MiB cache (thorough)",
    variables="choice: o0, o1, o2",
    budget_s={"thorough": 1500},
    choice_vars=3,
)
def histories_l3_all(o0: int, o1: int, o2: int, backend: int):
    o1 = pick(o1, len(OPS))
    o2 = pick(o2, len(OPS))
    with concrete_region():
        _history(BACKENDS[backend], [o0, o1, o2])


@obligation(
    "C05.histories_l4",
    covers=("oversize-value", "overwrite-or-rememoize", "forget"),
    split={"backend": [0, 3], "o0": list(range(len(OPS))), "o1": list(range(0, len(OPS), 3))},
    tiers=("thorough",),
    bounds="L=4 on memory and fs+4KiB cache with the second operation restricted to every third one (thorough)",
    variables="choice: o0, o1, o2, o3",
    budget_s={"thorough": 2400},
    choice_vars=4,
)
def histories_l4(o0: int, o1: int, o2: int, o3: int, backend: int):
    o2 = pick(o2, len(OPS))
    o3 = pick(o3, len(OPS))
    with concrete_region():
        _history(BACKENDS[backend], [o0, o1, o2, o3])


# ------------------------------------------------------------------------------------------------
# inductive step of the cache layer (StorageBackendBase + MemoryCache) over an exact store
# ------------------------------------------------------------------------------------------------

from collections import deque as _deque  # noqa: E402
from weakref import WeakValueDictionary as _WVD  # noqa: E402

from twosigma.memento.reference import FunctionReferenceWithArgHash as _FAH  # noqa: E402
from twosigma.memento.storage_base import MemoryCache as _MC, MetadataSource as _MS, StorageBackendBase as _SBB, _CacheEntry  # noqa: E402
from twosigma.memento.types import VersionedDataSourceKey as _VK  # noqa: E402

from vp import fixtures as fx  # noqa: E402


class _DictMetadata(_MS):
    """exact metadata source: a dictionary (call key -> memento); counts accesses"""

    def __init__(self):
        super().__init__()
        self.m = {}
        self.meta = {}
        self.reads = 0

    @staticmethod
    def _k(f):
        return (f.fn_reference.qualified_name, f.arg_hash)

    def get_mementos(self, fns):
        self.reads += 1
        return [self.m.get(self._k(f)) for f in fns]

    def all_mementos_exist(self, fns):
        self.reads += 1
        return all(self._k(f) in self.m for f in fns)

    def list_functions(self):
        out = {}
        for mem in self.m.values():
            r = mem.invocation_metadata.fn_reference_with_args.fn_reference
            out[r.qualified_name] = r
        return list(out.values())

    def list_mementos(self, fn, limit=None):
        return [mm for (qn, _h), mm in self.m.items() if qn == fn.qualified_name][:limit]

    def put_memento(self, memento):
        f = memento.invocation_metadata.fn_reference_with_args
        self.m[(f.fn_reference.qualified_name, f.arg_hash)] = memento

    def read_metadata(self, fn_with_arg_hash, key, retry_on_none=False):
        return self.meta.get((self._k(fn_with_arg_hash), key))

    def write_metadata(self, fn_with_arg_hash, key, value, stored_with_data=False):
        self.meta[(self._k(fn_with_arg_hash), key)] = value

    def forget_call(self, f):
        self.m.pop(self._k(f), None)

    def forget_everything(self):
        self.m.clear()

    def forget_function(self, fn_reference):
        for k in [k for k in self.m if k[0] == fn_reference.qualified_name]:
            del self.m[k]


class _DictCodec:
    """exact blob store: content key -> the very object"""

    def __init__(self):
        self.blobs = {}
        self.n = 0
        self.loads = 0

    def store(self, result_type, data_source, key_override, result):
        self.n += 1
        key = _VK("c/%d" % self.n, "v")
        self.blobs[(key.key, key.version)] = result
        return key

    def load(self, result_type, data_source, key):
        self.loads += 1
        return self.blobs[(key.key, key.version)]


class _LayerBackend(_SBB):
    def __init__(self, cache):
        super().__init__("stub", data_source=None, metadata_source=_DictMetadata(), memory_cache_mb=None, config={})
        self._memory_cache = cache
        self.codec = _DictCodec()

    def to_dict(self):
        return {"type": "stub"}


LAYER_OPS = ["memoize", "get_mementos", "read_result", "is_memoized", "is_all_memoized", "forget_call", "forget_function",
             "forget_everything"]


def _layer_state(K, p, r, h, w, s, budget):
    """store with presence bits p; cache in an arbitrary state CONSISTENT with it (the representation invariant)"""
    cache = _MC.__new__(_MC)
    cache.__dict__.update(_MC(1).__dict__)
    cache.memory_cache_bytes = budget
    cache.lru_deque = _deque()
    cache.cache = dict()
    cache.refs = _WVD()
    be = _LayerBackend(cache)
    vals = [fx.Val("stored%d" % i) for i in range(K)]
    mems = []
    usage = 0
    for i in range(K):
        mem = fx.make_memento(*fx.CALLS4[i])
        mems.append(mem)
        if p[i]:
            mem.content_key = be.codec.store(None, None, None, vals[i])
            be._metadata_source.put_memento(mem)
        if r[i]:
            cache.cache[fx.CACHE_KEYS4[i]] = _CacheEntry(s[i], mem, vals[i] if h[i] else None, h[i])
            cache.lru_deque.append(fx.CACHE_KEYS4[i])
            usage = usage + s[i]
        if w[i]:
            cache.refs[fx.CACHE_KEYS4[i]] = vals[i]
    cache.memory_usage = usage
    return be, cache, vals, mems, usage


def _layer_invariant(K, be, cache, present, cur_mem, cur_val, tag):
    """C06's accounting invariant + coherence of the cache with the store"""
    total = 0
    for k, e in cache.cache.items():
        total = total + e.obj_size
    check(tag + "usage==sum(resident sizes)", cache.memory_usage == total, None)
    check(tag + "usage<=budget", cache.memory_usage <= cache.memory_cache_bytes, None)
    dq = list(cache.lru_deque)
    check(tag + "deque==resident-set-without-duplicates", len(dq) == len(set(dq)) and set(dq) == set(cache.cache.keys()), dq)
    for i in range(K):
        k = fx.CACHE_KEYS4[i]
        e = cache.cache.get(k)
        if e is not None:
            check(tag + "resident-entry-belongs-to-a-stored-call", present[i], i)
            check(tag + "resident-memento-is-the-store's", e.memento is cur_mem[i], i)
            if e.has_value:
                check(tag + "resident-value-is-the-store's", e.value is cur_val[i], i)
        ref = cache.refs.get(k)
        if ref is not None:
            check(tag + "weak-ref-belongs-to-a-stored-call", present[i], i)
            check(tag + "weak-ref-value-is-the-store's", ref is cur_val[i], i)


@obligation(
    "C05.cache_layer_step",
    covers=("served-from-cache", "cache-filled-from-store", "oversize", "forgotten", "new-result-cannot-be-weakly-referenced"),
    split={"op": list(range(len(LAYER_OPS))), "t": [0, 1]},
    tier_split={"thorough": {"op": list(range(len(LAYER_OPS))), "t": [0, 1, 2], "st0": list(range(7))}},
    tier_args={"quick": {"K": 2}, "thorough": {"K": 3}},
    bounds="INDUCTIVE STEP: StorageBackendBase with a real MemoryCache over an exact dictionary store, K = 2 calls (f#1/h1, f#1/h2; thorough K = 3 with f#10/h1); "
           "ARBITRARY pre-state: presence bits of the store; resident / has-value / weak-ref bits of the cache consistent with it; sizes, "
           "budget and the new result's size unbounded non-negative ints; the new result weakly referenceable or not; one operation (memoize, get_mementos, read_result, is_memoized, "
           "is_all_memoized, forget_call, forget_function, forget_everything) on call t: the answer equals the dictionary's, the "
           "representation invariant (C06 accounting + every resident memento / value / weak ref is the store's current one, resident and "
           "weakly referenced calls are stored calls) holds again, and every read-only query afterwards equals the dictionary's",
    variables="data: s0..s2, budget, ns (ints); choice: st0..st2 (one of 7 consistent per-call states), u (second key)",
    stubs=("exact dictionary MetadataSource and Codec under StorageBackendBase", "SizeOracle replaces MemoryCache._estimate_object_size"),
    budget_s={"quick": 300, "thorough": 1500},
    data_vars=5, choice_vars=4,
)
def cache_layer_step(op: int, t: int, st0: int, st1: int, st2: int, s0: int, s1: int, s2: int, budget: int, ns: int, u: int, K: int,
                     plain_value: bool):
    # per call one of 7 consistent states (no assumption-discarded paths):
    # 0 absent | 1 stored | 2 stored + weak ref | 3 resident memento-only | 4 same + weak ref | 5 resident with value | 6 same + weak ref
    sts = [pick(x, 7) for x in (st0, st1, st2)[:K]] + [0] * (3 - K)
    p = [x >= 1 for x in sts]
    r = [x >= 3 for x in sts]
    h = [x >= 5 for x in sts]
    w = [x in (2, 4, 6) for x in sts]
    assume(s0 >= 0 and s1 >= 0 and s2 >= 0 and budget >= 0 and ns >= 0)
    s = [s0 if r[0] else 0, s1 if r[1] else 0, s2 if r[2] else 0]
    name = LAYER_OPS[op]
    if name == "is_all_memoized":
        u = pick(u, K)
    else:
        u = 0
    be, cache, vals, mems, usage = _layer_state(K, p, r, h, w, s, budget)
    assume(usage <= budget)
    present = list(p)
    cur_mem = list(mems)
    cur_val = list(vals)
    # the new result: an object that can be weakly referenced, or a plain str (ints, strs, dicts cannot)
    if name == "memoize" and plain_value:
        cover("new-result-cannot-be-weakly-referenced")
        newval = "new-plain-value-%d" % t
    else:
        newval = fx.Val("new")
    sizes = {id(newval): ns}

    def size_of(obj):
        return sizes.get(id(obj), 16)

    orig = _MC._estimate_object_size
    _MC._estimate_object_size = staticmethod(size_of)
    try:
        ref, x = fx.CALLS4[t]
        fah = _FAH(ref, fx.HASHES4[t])
        ms = be._metadata_source
        reads0, loads0 = ms.reads, be.codec.loads
        if name == "memoize":
            newmem = fx.make_memento(ref, x)
            be.memoize(None, newmem, newval)
            present[t], cur_mem[t], cur_val[t] = True, newmem, newval
            check("memoize-writes-through", ms.m.get((ref.qualified_name, fx.HASHES4[t])) is newmem and newmem.content_key is not None, None)
            if ns > budget:
                cover("oversize")
        elif name == "get_mementos":
            got = be.get_mementos([_FAH(fx.CALLS4[i][0], fx.HASHES4[i]) for i in range(K)])
            for i in range(K):
                check("get_mementos-answers-like-the-dictionary", got[i] is (cur_mem[i] if present[i] else None), i)
            if all(r[i] or not present[i] for i in range(K)) and any(r):
                cover("served-from-cache")
            if any(present[i] and not r[i] for i in range(K)):
                cover("cache-filled-from-store")
        elif name == "read_result":
            assume(present[t])
            got = be.read_result(cur_mem[t])
            check("read_result-returns-the-stored-value", got is cur_val[t], repr(got))
            if (r[t] and h[t]) or (w[t] and not r[t]):
                # (a memento-only resident entry whose value is still weakly referenced goes to the store: allowed)
                cover("served-from-cache")
                check("value-held-by-the-cache-is-served-without-touching-the-store", be.codec.loads == loads0, None)
            else:
                cover("cache-filled-from-store")
        elif name == "is_memoized":
            got = be.is_memoized(ref, fx.HASHES4[t])
            check("is_memoized-answers-like-the-dictionary", bool(got) == present[t], (got, present[t]))
        elif name == "is_all_memoized":
            got = be.is_all_memoized([fx.fwa(*fx.CALLS4[t]), fx.fwa(*fx.CALLS4[u])])
            check("is_all_memoized-answers-like-the-dictionary", bool(got) == (present[t] and present[u]), (got, present))
        elif name == "forget_call":
            be.forget_call(fah)
            present[t] = False
            cover("forgotten")
        elif name == "forget_function":
            be.forget_function(ref)
            for i in range(K):
                if fx.CALLS4[i][0].qualified_name == ref.qualified_name:
                    present[i] = False
            cover("forgotten")
        else:
            be.forget_everything()
            present = [False] * K
            cover("forgotten")
        _layer_invariant(K, be, cache, present, cur_mem, cur_val, "after:")
        # every read-only query now answers like the dictionary (this also exercises the cache fills once more)
        for i in range(K):
            ri, xi = fx.CALLS4[i]
            check("then:is_memoized", bool(be.is_memoized(ri, fx.HASHES4[i])) == present[i], (i, present[i]))
            gm = be.get_memento(_FAH(ri, fx.HASHES4[i]))
            check("then:get_memento", gm is (cur_mem[i] if present[i] else None), i)
            if present[i]:
                check("then:read_result", be.read_result(gm) is cur_val[i], i)
        _layer_invariant(K, be, cache, present, cur_mem, cur_val, "then:")
    finally:
        _MC._estimate_object_size = orig
