"""
C05 - every storage back-end behaves like one dictionary of memoized calls.
"""
from vp import storemodel as sm
from vp.engine import assume, check, cover, note, obligation, pick
from vp.memenv import Sandbox, concrete_region

BACKENDS = ["memory", "fs", "fs+meta", "fs+cache:0.004", "fs+cache:1"]
OPS = sm.build_ops(values=("small", "held-array", "none"))


def _history(kind, ops_idx, quiet=False):
    model = sm.Model()
    sb = Sandbox(kinds=kind)
    try:
        backend = sb.storage()
        sm.check_queries(backend, model, "empty:")
        for step, oi in enumerate(ops_idx):
            op = OPS[oi]
            if not sm.applicable(model, op):
                assume(False)
            sm.apply_op(backend, op)
            model.apply(op)
            if op[0] == "memoize" and op[2] == "held-array":
                cover("oversize-value")
            if op[0] == "memoize" and op[1] in model.entries and step > 0:
                cover("overwrite-or-rememoize")
            if op[0].startswith("forget"):
                cover("forget")
            if op[0] == "write_metadata":
                cover("metadata")
            if quiet and step < len(ops_idx) - 1:
                sm.check_is_memoized_only(backend, model, "quiet:")
            else:
                sm.check_queries(backend, model, "")
    finally:
        sb.close()


@obligation(
    "C05.histories",
    covers=("oversize-value", "overwrite-or-rememoize", "forget", "metadata"),
    split={"backend": [0, 3], "o0": list(range(len(OPS)))},
    bounds="all sequences of L=3 operations out of %d (memoize 4 calls x {small, an ndarray that is oversize for 4 KiB, weak-referenceable and held by the caller, None} + another value + 2 key-override "
           "writes to a shared key; forget_call x4, forget_function x3, forget_everything; write_metadata x2) from the empty store, on the "
           "memory back-end and the filesystem back-end with a 4 KiB cache; after EVERY operation ALL read-only queries (get_memento(s), "
           "is_memoized, is_all_memoized over pairs, read_result, read_metadata, list_functions, list_mementos) are compared with a "
           "dictionary. Functions f#1, f#10, ff#1 (prefix names / versions)" % len(OPS),
    variables="choice: o0 (fixed per job), o1, o2 (operation indices)",
    budget_s={"quick": 170, "thorough": 900},
    choice_vars=3,
)
def histories(o0: int, o1: int, o2: int, backend: int):
    o1 = pick(o1, len(OPS))
    o2 = pick(o2, len(OPS))
    with concrete_region():
        _history(BACKENDS[backend], [o0, o1, o2])


@obligation(
    "C05.histories_quiet",
    covers=("oversize-value", "overwrite-or-rememoize", "forget"),
    split={"backend": [3], "o0": list(range(len(OPS)))},
    tier_split={"thorough": {"backend": [3, 4], "o0": list(range(len(OPS)))}},
    bounds="as C05.histories (L=3) on the filesystem back-end with a 4 KiB cache (thorough: also 1 MiB), but BETWEEN operations only "
           "is_memoized is queried (the other queries fill the memory cache as a side effect and can mask what an operation left in it); "
           "the full comparison runs after the last operation",
    variables="choice: o0 (fixed per job), o1, o2",
    budget_s={"quick": 170, "thorough": 900},
    choice_vars=3,
)
def histories_quiet(o0: int, o1: int, o2: int, backend: int):
    o1 = pick(o1, len(OPS))
    o2 = pick(o2, len(OPS))
    with concrete_region():
        _history(BACKENDS[backend], [o0, o1, o2], quiet=True)


@obligation(
    "C05.histories_l2",
    covers=("oversize-value", "overwrite-or-rememoize", "forget", "metadata"),
    split={"backend": [1, 2, 4]},
    bounds="all sequences of L=2 operations out of %d on fs, fs with a separate metadata path, and fs with a 1 MiB cache" % len(OPS),
    variables="choice: o0, o1",
    budget_s={"quick": 170, "thorough": 600},
    choice_vars=2,
)
def histories_l2(o0: int, o1: int, backend: int):
    o0 = pick(o0, len(OPS))
    o1 = pick(o1, len(OPS))
    with concrete_region():
        _history(BACKENDS[backend], [o0, o1])


@obligation(
    "C05.histories_l3_all",
    covers=("oversize-value", "overwrite-or-rememoize", "forget", "metadata"),
    split={"backend": [1, 2, 4], "o0": list(range(len(OPS)))},
    tiers=("thorough",),
    bounds="L=3 on fs, fs with separate metadata path, fs with 1 MiB cache (thorough)",
    variables="choice: o0, o1, o2",
    budget_s={"thorough": 1500},
    choice_vars=3,
)
def histories_l3_all(o0: int, o1: int, o2: int, backend: int):
    o1 = pick(o1, len(OPS))
    o2 = pick(o2, len(OPS))
    with concrete_region():
        _history(BACKENDS[backend], [o0, o1, o2])


@obligation(
    "C05.histories_l4",
    covers=("oversize-value", "overwrite-or-rememoize", "forget"),
    split={"backend": [0, 3], "o0": list(range(len(OPS))), "o1": list(range(0, len(OPS), 3))},
    tiers=("thorough",),
    bounds="L=4 on memory and fs+4KiB cache with the second operation restricted to every third one (thorough)",
    variables="choice: o0, o1, o2, o3",
    budget_s={"thorough": 2400},
    choice_vars=4,
)
def histories_l4(o0: int, o1: int, o2: int, o3: int, backend: int):
    o2 = pick(o2, len(OPS))
    o3 = pick(o3, len(OPS))
    with concrete_region():
        _history(BACKENDS[backend], [o0, o1, o2, o3])
