"""
C04 - argument identity: the memo key is canonical in the bound argument values.

The real FunctionReferenceWithArguments / ArgumentHasher / partial() code runs on symbolic scalars.
With the InjectiveDigest stub "same key" is "same canonical JSON text", so key equality becomes a
string (in)equality the solver decides for all values in the bound.
"""
import datetime
import hashlib
import json
import re
from typing import Union

from twosigma.memento.reference import ArgumentHasher, FunctionReferenceWithArguments

from vp import fixtures as fx
from vp.engine import assume, check, cover, note, obligation, pick
from vp.memenv import concrete_region
from vp.stubs import SafeJson, hashing_stubs

ScalarNF = Union[None, bool, int, str]
STUBS = ("InjectiveDigest replaces hashlib.sha256 inside twosigma.memento.reference (digest = pre-image; SHA-256 collision freedom assumed)",
         "SafeJson replaces json.dumps on str inside twosigma.memento.reference for strings over the escape-free alphabet {a b : _ space}")


def _dom(v, maxlen=2):
    if isinstance(v, str):
        assume(len(v) <= maxlen)
        assume(re.fullmatch("[ab:_ ]*", v) is not None)
    elif isinstance(v, int) and not isinstance(v, bool):
        assume(-20 <= v <= 20)


TYPES = [type(None), bool, int, str]


def _is_type(v, ti):
    """partition of the Union by concrete type index (fixed per job)"""
    assume(type(v) is TYPES[ti])


def same(a, b) -> bool:
    if type(a) is not type(b):
        return False
    if isinstance(a, list):
        return len(a) == len(b) and all(same(x, y) for x, y in zip(a, b))
    if isinstance(a, dict):
        return sorted(a.keys()) == sorted(b.keys()) and all(same(a[k], b[k]) for k in a)
    return a == b


G2 = fx.G2  # g2(x, y, z=None)


def _key(fwa):
    return fwa.arg_hash


PRESENTATIONS = ["(x,y)", "(x,y=y)", "(y=y,x=x)", "partial(x)(y)", "partial(y=y)(x)", "partial(x).partial(y)()",
                 "partial(x)(y=y)", "partial(x=x)(y=y)", "partial(x=x)(y)", "partial(y=y).partial(x)()"]


def _present(i, x, y):
    ref = G2.fn_reference()
    if i == 0:
        return FunctionReferenceWithArguments(ref, (x, y), {})
    if i == 1:
        return FunctionReferenceWithArguments(ref, (x,), {"y": y})
    if i == 2:
        return FunctionReferenceWithArguments(ref, (), {"y": y, "x": x})
    if i == 3:
        return FunctionReferenceWithArguments(G2.partial(x).fn_reference(), (y,), {})
    if i == 4:
        return FunctionReferenceWithArguments(G2.partial(y=y).fn_reference(), (x,), {})
    if i == 5:
        return FunctionReferenceWithArguments(G2.partial(x).partial(y).fn_reference(), (), {})
    if i == 6:
        return FunctionReferenceWithArguments(G2.partial(x).fn_reference(), (), {"y": y})
    if i == 7:
        return FunctionReferenceWithArguments(G2.partial(x=x).fn_reference(), (), {"y": y})
    if i == 8:
        # a parameter bound by keyword through partial, the REMAINING parameters passed positionally
        return FunctionReferenceWithArguments(G2.partial(x=x).fn_reference(), (y,), {})
    return FunctionReferenceWithArguments(G2.partial(y=y).partial(x).fn_reference(), (), {})


@obligation(
    "C04.presentations",
    covers=("partial", "keyword"),
    split={"pres": list(range(1, len(PRESENTATIONS)))},
    bounds="g2(x, y, z=None); x, y: Union[None,bool,int |v|<=20,str <= 2 chars over {a b : _ space}]; 10 equivalent call presentations",
    variables="data: x, y; choice: presentation",
    stubs=STUBS,
    budget_s={"quick": 170, "thorough": 600},
    data_vars=2, choice_vars=1,
)
def presentations(x: ScalarNF, y: ScalarNF, pres: int):
    _dom(x)
    _dom(y)
    with hashing_stubs():
        base = _present(0, x, y)
        other = _present(pres, x, y)
        cover("partial" if "partial" in PRESENTATIONS[pres] else "keyword")
        check("same-key", _key(base) == _key(other), lambda: (_key(base), _key(other)))
        check("same-effective-kwargs", same(base.effective_kwargs, other.effective_kwargs) and set(other.effective_kwargs) == {"x", "y"},
              lambda: (base.effective_kwargs, other.effective_kwargs))
        check("effective-kwargs-are-the-bound-values", same(other.effective_kwargs["x"], x) and same(other.effective_kwargs["y"], y),
              lambda: other.effective_kwargs)


@obligation(
    "C04.iff",
    covers=("equal", "different-type", "different-value"),
    split={"wrap": ["scalar", "list", "dict", "second-param"]},
    bounds="one parameter bound to v in one call and to w in the other (bare, inside a list, inside a dict, or as the second of two "
           "parameters); v, w: Union[None,bool,int |v|<=20,str <= 2 chars]",
    variables="data: v, w; choice: wrap",
    stubs=STUBS,
    budget_s={"quick": 170, "thorough": 600},
    data_vars=2, choice_vars=1,
)
def iff(v: ScalarNF, w: ScalarNF, wrap: str):
    _dom(v)
    _dom(w)
    ref = G2.fn_reference()
    with hashing_stubs():
        if wrap == "scalar":
            a = FunctionReferenceWithArguments(ref, (v,), {})
            b = FunctionReferenceWithArguments(ref, (w,), {})
        elif wrap == "list":
            a = FunctionReferenceWithArguments(ref, ([v, 1],), {})
            b = FunctionReferenceWithArguments(ref, ([w, 1],), {})
        elif wrap == "dict":
            a = FunctionReferenceWithArguments(ref, ({"k": v},), {})
            b = FunctionReferenceWithArguments(ref, ({"k": w},), {})
        else:
            a = FunctionReferenceWithArguments(ref, ("a", v), {})
            b = FunctionReferenceWithArguments(ref, ("a",), {"y": w})
        eq = same(v, w)
        if eq:
            cover("equal")
        elif type(v) is not type(w):
            cover("different-type")
        else:
            cover("different-value")
        check("key-equal-iff-bound-values-equal", (_key(a) == _key(b)) == eq, lambda: (_key(a), _key(b)))
        # wrapping changes identity: [v] is never v
        if wrap == "list":
            c = FunctionReferenceWithArguments(ref, (v,), {})
            check("list-wrapping-changes-key", _key(a) != _key(c), lambda: (_key(a), _key(c)))


@obligation(
    "C04.dict_order",
    covers=("nested",),
    split={"vt": [0, 1, 2, 3], "nested": [False, True]},
    bounds="dict arguments {a: v, b: w} built in both insertion orders, flat and nested one level; v, w symbolic scalars",
    variables="data: v, w",
    stubs=STUBS,
    budget_s={"quick": 170, "thorough": 600},
    data_vars=2,
)
def dict_order(v: ScalarNF, w: ScalarNF, vt: int, nested: bool):
    _is_type(v, vt)
    _dom(v)
    _dom(w)
    ref = G2.fn_reference()
    with hashing_stubs():
        d1 = {"a": v, "b": w}
        d2 = {"b": w, "a": v}
        if not nested:
            a = FunctionReferenceWithArguments(ref, (d1,), {})
            b = FunctionReferenceWithArguments(ref, (d2,), {})
            check("insertion-order-irrelevant", _key(a) == _key(b), lambda: (_key(a), _key(b)))
            # but swapping the values under the keys matters unless they are equal
            c = FunctionReferenceWithArguments(ref, ({"a": w, "b": v},), {})
            check("values-under-keys-matter", (_key(c) == _key(a)) == same(v, w), None)
            return
        cover("nested")
        n1 = {"o": {"a": v, "b": [w]}, "p": 1}
        n2 = {"p": 1, "o": {"b": [w], "a": v}}
        a = FunctionReferenceWithArguments(ref, (), {"x": n1})
        b = FunctionReferenceWithArguments(ref, (), {"x": n2})
        check("nested-insertion-order-irrelevant", _key(a) == _key(b), lambda: (_key(a), _key(b)))


@obligation(
    "C04.context",
    covers=("empty-context", "context-differs"),
    bounds="context args None / {} / {k: v} / {k: w} / {j: v}; v, w symbolic scalars; x concrete",
    variables="data: v, w",
    stubs=STUBS,
    budget_s={"quick": 170, "thorough": 600},
    data_vars=2,
)
def context(v: ScalarNF, w: ScalarNF):
    _dom(v)
    _dom(w)
    ref = G2.fn_reference()
    with hashing_stubs():
        plain = FunctionReferenceWithArguments(ref, (1, 2), {})
        none_ctx = FunctionReferenceWithArguments(ref, (1, 2), {}, context_args=None)
        empty_ctx = FunctionReferenceWithArguments(ref, (1, 2), {}, context_args={})
        cover("empty-context")
        check("no-context==None-context=={}-context", _key(plain) == _key(none_ctx) == _key(empty_ctx), None)
        a = FunctionReferenceWithArguments(ref, (1, 2), {}, context_args={"k": v})
        b = FunctionReferenceWithArguments(ref, (1, 2), {}, context_args={"k": w})
        c = FunctionReferenceWithArguments(ref, (1, 2), {}, context_args={"j": v})
        check("context-changes-key", _key(a) != _key(plain), lambda: (_key(a), _key(plain)))
        check("context-injective-in-value", (_key(a) == _key(b)) == same(v, w), lambda: (_key(a), _key(b)))
        if not same(v, w):
            cover("context-differs")
        check("context-injective-in-name", _key(a) != _key(c), None)
        check("context-args-not-in-effective-kwargs", set(a.effective_kwargs.keys()) == {"x", "y"}, lambda: a.effective_kwargs)
        # a context arg is not the same thing as a keyword argument of the same name and value
        d = FunctionReferenceWithArguments(ref, (1, 2), {"z": {"k": v}})
        check("context-arg-is-not-a-kwarg", _key(a) != _key(d), None)


# ---- reference implementation written from the ArgumentHasher docstring (oracle) ---------------


def spec_encode(v):
    if v is None or isinstance(v, (bool, str, int, float)):
        return v
    if isinstance(v, datetime.datetime):
        return {"_mementoType": "datetime", "iso8601": v.isoformat()}
    if isinstance(v, datetime.date):
        return {"_mementoType": "date", "iso8601": v.isoformat()}
    if isinstance(v, list):
        return [spec_encode(x) for x in v]
    if isinstance(v, dict):
        return {k: spec_encode(x) for k, x in v.items()}
    raise ValueError(type(v))


def spec_text(obj, dumps) -> str:
    """normalised JSON: sorted keys, no whitespace"""
    if obj is None or isinstance(obj, (bool, str, int, float)):
        return dumps(obj)
    if isinstance(obj, list):
        return "[" + ",".join(spec_text(x, dumps) for x in obj) + "]"
    keys = sorted(obj.keys())
    return "{" + ",".join(dumps(k) + ":" + spec_text(obj[k], dumps) for k in keys) + "}"


def spec_effective(param_names, partial_args, partial_kwargs, args, kwargs):
    eff = dict(partial_kwargs)
    for i, a in enumerate(partial_args):
        eff[param_names[i]] = a
    rest = [p for p in param_names if p not in eff]
    for i, a in enumerate(args):
        eff[rest[i]] = a
    eff.update(kwargs)
    return eff


@obligation(
    "C04.spec",
    covers=("with-context", "with-partial"),
    split={"form": [0, 1, 2, 3], "vt": [0, 1, 2, 3]},
    bounds="differential against a reference implementation of the documented algorithm (effective kwargs, typed encoding, sorted "
           "keys, no whitespace) on the same symbolic inputs: 4 call forms over two symbolic scalars incl. list/dict nesting and context",
    variables="data: v, w; choice: form",
    stubs=STUBS,
    budget_s={"quick": 170, "thorough": 600},
    data_vars=2, choice_vars=1,
)
def spec(v: ScalarNF, w: ScalarNF, form: int, vt: int):
    _is_type(v, vt)
    _dom(v)
    _dom(w)
    ref = G2.fn_reference()
    names = ["x", "y", "z"]
    with hashing_stubs():
        if form == 0:
            fwa = FunctionReferenceWithArguments(ref, (v,), {"z": w})
            eff = spec_effective(names, (), {}, (v,), {"z": w})
            ctx = None
        elif form == 1:
            cover("with-partial")
            fwa = FunctionReferenceWithArguments(G2.partial(v, z=[w]).fn_reference(), ({"q": w},), {})
            eff = spec_effective(names, (v,), {"z": [w]}, ({"q": w},), {})
            ctx = None
        elif form == 2:
            cover("with-context")
            fwa = FunctionReferenceWithArguments(ref, (), {"y": v}, context_args={"c": [w, None]})
            eff = spec_effective(names, (), {}, (), {"y": v})
            ctx = {"c": [w, None]}
        else:
            fwa = FunctionReferenceWithArguments(ref, ([v, {"k": w}], True), {})
            eff = spec_effective(names, (), {}, ([v, {"k": w}], True), {})
            ctx = None
        check("effective-kwargs-as-documented", same(fwa.effective_kwargs, eff), lambda: (fwa.effective_kwargs, eff))
        hk = dict(eff)
        if ctx:
            hk["_memento_context_args"] = ctx
        text = spec_text(spec_encode(hk), SafeJson.dumps)
        check("canonical-text-as-documented", fwa.arg_hash == text, lambda: (fwa.arg_hash, text))


# ---- catalogue obligations: values whose rendering is C code (floats, dates) ------------------

UTC = datetime.timezone.utc
CAT = [
    None, True, False, 0, 1, -1, 2**70, 0.0, 1.0, 1.5, 1e300, float("inf"), float("nan"), "", "1", "1.0", "None", "true", "é\n\"\\",
    datetime.date(2020, 1, 1), datetime.datetime(2020, 1, 1), datetime.datetime(2020, 1, 1, tzinfo=UTC),
    datetime.datetime(2020, 1, 1, 0, 0, 0, 1), datetime.datetime(2020, 1, 1, 5, 30, tzinfo=datetime.timezone(datetime.timedelta(hours=5, minutes=30))),
    datetime.datetime(2020, 1, 2, tzinfo=datetime.timezone(datetime.timedelta(hours=-8))),
    [], [1], [[1]], {}, {"a": 1}, {"a": [1]}, [None], {"a": None},
    # dictionaries whose keys sort differently as raw strings and as rendered JSON text ('k' < 'k!' but '"k!"' < '"k"')
    {"k": 1, "k!": 2}, {"name": 1, "name 2": 2}, {'a"b': 1, "a": 2, "a b": 3}, {"\u00e9": 1, "e": 2, "z": 3},
]


def _cat_same(a, b):
    if type(a) is not type(b):
        return False
    if isinstance(a, float) and a != a:
        return b != b
    if isinstance(a, datetime.datetime):
        return a == b and (a.tzinfo is None) == (b.tzinfo is None) and a.utcoffset() == b.utcoffset()
    if isinstance(a, list):
        return len(a) == len(b) and all(_cat_same(x, y) for x, y in zip(a, b))
    if isinstance(a, dict):
        return sorted(a) == sorted(b) and all(_cat_same(a[k], b[k]) for k in a)
    return a == b


@obligation(
    "C04.catalogue",
    covers=("equal-pair", "different-pair", "real-sha256"),
    split={"i": list(range(0, len(CAT), 2))},
    bounds="all ordered pairs over a catalogue of %d concrete values (True/1/1.0/'1', None/'None', NaN, inf, 2**70, non-ASCII text, date vs "
           "midnight datetime vs aware datetime, +-hh:mm offsets, empty and nested containers): real SHA-256 key equal iff same type and "
           "value; key == sha256(reference-implementation text); body receives the normalised values. Excluded: -0.0 vs 0.0 and equal "
           "instants written with different offsets (== in Python, distinct canonical text)" % len(CAT),
    variables="choice: i, j (catalogue indices)",
    budget_s={"quick": 120, "thorough": 300},
    choice_vars=2,
)
def catalogue(i: int, j: int, di: int):
    di = pick(di, 2)
    j = pick(j, len(CAT))
    i = i + di
    assume(i < len(CAT))
    with concrete_region():
        a, b = CAT[i], CAT[j]
        ref = G2.fn_reference()
        fa = FunctionReferenceWithArguments(ref, (a,), {"y": 0})
        fb = FunctionReferenceWithArguments(ref, (), {"y": 0, "x": b})
        eq = _cat_same(a, b)
        cover("equal-pair" if eq else "different-pair")
        check("key-equal-iff-same-type-and-value", (fa.arg_hash == fb.arg_hash) == eq, (repr(a), repr(b), fa.arg_hash, fb.arg_hash))
        text = spec_text(spec_encode({"x": a, "y": 0}), json.dumps)
        cover("real-sha256")
        check("key==sha256(documented canonical json)", fa.arg_hash == hashlib.sha256(text.encode("utf-8")).hexdigest(), (text, fa.arg_hash))
        check("normalised-value-keeps-type-and-value", _cat_same(fa.effective_kwargs["x"], a), (repr(fa.effective_kwargs["x"]), repr(a)))


RESERVED_KEYS = [("_mementoType", "iso8601"), ("_mementoType", "iso"), ("a", "iso8601")]


@obligation(
    "C04.reserved",
    covers=("collision-searched",),
    split={"ki": [0, 1, 2]},
    bounds="a string-keyed dict argument {k1: v1, k2: v2}, keys from a catalogue of 3 pairs (incl. the reserved names), values symbolic "
           "strings of length <= 4 and <= 10 (any characters except '\"' and backslash), versus the date 2020-01-01: the solver searches for values making the keys collide",
    variables="data: v1, v2 (z3 strings); choice: key pair",
    stubs=STUBS,
    budget_s={"quick": 120, "thorough": 300},
    data_vars=2, choice_vars=1,
    per_path_s=60.0,
)
def reserved(v1: str, v2: str, ki: int):
    assume(len(v1) <= 4)
    assume(len(v2) <= 10)
    for s in (v1, v2):
        # no quote / backslash: the only characters with which the SafeJson stub (no escaping) could forge JSON structure
        assume('"' not in s)
        assume(chr(92) not in s)
    k1, k2 = RESERVED_KEYS[ki]
    d = {k1: v1, k2: v2}
    with hashing_stubs():
        # the documented encoding of date(2020,1,1), computed by the real code
        date_text = ArgumentHasher._normalized_json(ArgumentHasher._encode({"x": datetime.date(2020, 1, 1)}))
        dict_text = ArgumentHasher._normalized_json(ArgumentHasher._encode({"x": d}))
    cover("collision-searched")
    check("dict-argument-never-collides-with-a-date", dict_text != date_text, lambda: (d, dict_text))


@obligation(
    "C04.calls",
    covers=("hit", "miss"),
    split={"store": ["memory", "fs"]},
    bounds="function-level: g2 called through the public API in 10 presentations for 6 concrete argument pairs; body runs once per "
           "distinct binding, later presentations hit; the body receives exactly effective_kwargs",
    variables="choice: presentation, argument pair",
    budget_s={"quick": 120, "thorough": 300},
    choice_vars=2,
)
def calls(pres: int, pair: int, store: str):
    from vp.memenv import Program, Sandbox

    pres = pick(pres, len(PRESENTATIONS))
    pair = pick(pair, 6)
    with concrete_region():
        x, y = [(1, 2), (True, 1), ("1", 1.0), (None, [1, {"a": None}]), (datetime.date(2020, 1, 1), datetime.datetime(2020, 1, 1)),
                ({"b": 1, "a": 2}, "")][pair]
        sb = Sandbox(kinds=store)
        prog = Program("vpc04")
        try:
            prog.exec("@m.memento_function(version='1')\ndef g2(x, y, z=None):\n    _trace.append({'x': x, 'y': y, 'z': z})\n    return [x, y]\n")
            g2 = prog.g2
            r0 = g2(x, y)
            n = len(prog.trace)
            check("body-ran-once", n == 1, n)
            eff = g2.fn_reference().with_args(x, y).effective_kwargs
            got = prog.trace[0]
            check("body-receives-normalised-effective-kwargs", _cat_same(got["x"], eff["x"]) and _cat_same(got["y"], eff["y"]) and got["z"] is None,
                  (repr(got), repr(eff)))
            calls_ = [
                lambda: g2(x, y), lambda: g2(x, y=y), lambda: g2(y=y, x=x), lambda: g2.partial(x)(y), lambda: g2.partial(y=y)(x),
                lambda: g2.partial(x).partial(y)(), lambda: g2.partial(x)(y=y), lambda: g2.partial(x=x)(y=y),
                lambda: g2.partial(x=x)(y), lambda: g2.partial(y=y).partial(x)(),
            ]
            r1 = calls_[pres]()
            cover("hit")
            check("equivalent-presentation-hits", len(prog.trace) == 1, (PRESENTATIONS[pres], len(prog.trace)))
            check("same-result", _cat_same(r0, r1), (repr(r0), repr(r1)))
            g2(y, x) if not _cat_same(x, y) else g2(x, [y])
            cover("miss")
            check("different-binding-misses", len(prog.trace) == 2, len(prog.trace))
        finally:
            prog.close()
            sb.close()


def _lookalikes():
    tz2 = datetime.timezone(datetime.timedelta(hours=2))
    return [1, True, 1.0, "1", 0, False, 0.0, -0.0, None, "", [1], [True], [1.0], {"a": 1}, {"a": 1.0},
            datetime.datetime(2020, 1, 1, 12, tzinfo=datetime.timezone.utc), datetime.datetime(2020, 1, 1, 14, tzinfo=tz2),
            datetime.date(2020, 1, 1), datetime.datetime(2020, 1, 1)]


LOOKALIKES = _lookalikes()


@obligation(
    "C04.batch_lookalikes",
    covers=("python-equal-entries", "identical-entries"),
    split={"i": list(range(len(LOOKALIKES))), "style": ["call_batch", "map_over_range"]},
    bounds="one batch (call_batch / map_over_range) of 3 entries whose argument is any of %d look-alike values (third entry: the first 8) (1 / True / 1.0 / '1', "
           "0 / False / 0.0 / -0.0, None / '', [1] / [True] / [1.0], dict values, equal instants with different offsets, date / midnight): each "
           "entry gets the result of ITS OWN arguments (type-exact), the body runs once per distinct argument hash, and every entry is "
           "afterwards memoized under its own key" % len(LOOKALIKES),
    variables="choice: three value indices, style",
    budget_s={"quick": 170, "thorough": 600},
    choice_vars=3,
)
def batch_lookalikes(i: int, j: int, k: int, style: str):
    from vp.memenv import Program, Sandbox

    j = pick(j, len(LOOKALIKES))
    k = pick(k, 8)
    with concrete_region():
        vals = [LOOKALIKES[i], LOOKALIKES[j], LOOKALIKES[k]]
        sb = Sandbox(kinds="memory")
        prog = Program("vpc04b")
        try:
            prog.exec("@m.memento_function(version='1')\ndef d1(x):\n    _trace.append(x)\n    return [type(x).__name__, repr(x)]\n")
            d1 = prog.d1
            ref = d1.fn_reference()
            effs = [ref.with_args(x=v) for v in vals]
            hashes = [e.arg_hash for e in effs]
            want = [[type(e.effective_kwargs["x"]).__name__, repr(e.effective_kwargs["x"])] for e in effs]
            if any(vals[a] == vals[b] and type(vals[a]) is not type(vals[b]) for a in range(3) for b in range(a + 1, 3)):
                cover("python-equal-entries")
            if len(set(hashes)) < 3:
                cover("identical-entries")
            if style == "call_batch":
                got = d1.call_batch([{"x": v} for v in vals])
                check("each-entry-gets-the-result-of-its-own-arguments", got == want, (repr(vals), got, want))
            else:
                hashable = all(not isinstance(v, (list, dict)) for v in vals)
                if hashable:
                    res = d1.map_over_range(x=vals)
                    for v, w in zip(vals, want):
                        same_key_other_type = any(v == u and (type(v) is not type(u) or repr(v) != repr(u)) for u in vals)
                        if not same_key_other_type:  # (python-equal values are one key of the returned dict: which one is served is not claimed)
                            check("range-entry-gets-the-result-of-its-own-arguments", res[v] == w, (repr(vals), repr(res), w))
                else:
                    d1.call_batch([{"x": v} for v in vals])
            check("body-ran-once-per-distinct-argument-hash", len(prog.trace) == len(set(hashes)), (repr(vals), len(prog.trace), hashes))
            n = len(prog.trace)
            for v, w in zip(vals, want):
                check("every-entry-is-memoized-under-its-own-key", d1.memento(v) is not None, repr(v))
                r = d1(v)
                check("later-single-call-returns-its-own-result", r == w, (repr(v), r, w))
            check("later-single-calls-hit", len(prog.trace) == n, (repr(vals), n, len(prog.trace)))
        finally:
            prog.close()
            sb.close()


# ------------------------------------------------------------------------------------------------
# memento functions passed as arguments (with partially bound values), and aliasing between caller and body
# ------------------------------------------------------------------------------------------------


def _fn_values():
    return [
        ("g2", G2, (), {}), ("g2(1)", G2.partial(1), (1,), {}), ("g2(True)", G2.partial(True), (True,), {}),
        ("g2(1.0)", G2.partial(1.0), (1.0,), {}), ("g2('1')", G2.partial("1"), ("1",), {}), ("g2(x=1)", G2.partial(x=1), (), {"x": 1}),
        ("g2(x=True)", G2.partial(x=True), (), {"x": True}), ("g2(1,2)", G2.partial(1, 2), (1, 2), {}), ("g2(1)(2)", G2.partial(1).partial(2), (1, 2), {}),
        ("f", fx.F, (), {}), ("f(1)", fx.F.partial(1), (1,), {}), ("f(0)", fx.F.partial(0), (0,), {}), ("f(False)", fx.F.partial(False), (False,), {}),
    ]


def _typed(t):
    if isinstance(t, dict):
        return sorted((k, type(v).__name__, v) for k, v in t.items())
    return [(type(v).__name__, v) for v in t]


@obligation(
    "C04.fn_reference_args",
    covers=("equal-pair", "python-equal-but-distinct", "different-function"),
    split={"i": list(range(13))},
    bounds="a memento function passed as an argument value, bare or with partially bound values: all ordered pairs over 13 such values "
           "(partial 1 / True / 1.0 / '1', positional vs keyword partial, two-step partial, another function) evaluated in one process "
           "in both orders: keys equal iff same function and same typed bound values; the body receives a reference carrying exactly "
           "the bound values (type included)",
    variables="choice: i (partitioned), j",
    budget_s={"quick": 120, "thorough": 300},
    choice_vars=2,
)
def fn_reference_args(i: int, j: int):
    j = pick(j, 13)
    with concrete_region():
        vals = _fn_values()
        (na, a, pa, ka), (nb, b, pb, kb) = vals[i], vals[j]
        ref = fx.FF.fn_reference()
        fa = FunctionReferenceWithArguments(ref, (a,), {})
        fb = FunctionReferenceWithArguments(ref, (), {"x": b})
        same_fn = na.split("(")[0] == nb.split("(")[0]
        eq = same_fn and _typed(pa) == _typed(pb) and _typed(ka) == _typed(kb)
        if eq:
            cover("equal-pair")
        elif not same_fn:
            cover("different-function")
        elif pa == pb and ka == kb:
            cover("python-equal-but-distinct")
        check("key-equal-iff-same-function-and-same-typed-bound-values", (fa.arg_hash == fb.arg_hash) == eq, (na, nb, fa.arg_hash, fb.arg_hash))
        for nm, fwa, p_, k_ in ((na, fa, pa, ka), (nb, fb, pb, kb)):
            got = fwa.effective_kwargs["x"]
            gp = tuple(getattr(got, "partial_args", None) or ())
            gk = dict(getattr(got, "partial_kwargs", None) or {})
            check("body-receives-a-reference-with-exactly-the-bound-values", _typed(gp) == _typed(p_) and _typed(gk) == _typed(k_),
                  (nm, repr(gp), repr(gk)))


@obligation(
    "C04.aliasing",
    covers=("list", "dict", "nested", "batch-shares-one-object"),
    split={"store": ["memory", "fs"]},
    bounds="a body that mutates its list / dict / nested argument in place, called with a caller-owned object that is then passed again "
           "(and shared by the entries of one call_batch): the caller's object is untouched (the body works on the normalised copy the key was "
           "computed from), the repeated call is a hit and the result is memoized under the original argument",
    variables="choice: shape, call form, store",
    budget_s={"quick": 120, "thorough": 300},
    choice_vars=3,
)
def aliasing(shape: int, form: int, store: str):
    from vp.memenv import Program, Sandbox

    shape = pick(shape, 3)
    form = pick(form, 3)
    with concrete_region():
        sb = Sandbox(kinds=store)
        prog = Program("vpc04a")
        try:
            prog.exec(
                "@m.memento_function(version='1')\n"
                "def mut(x):\n"
                "    _trace.append(repr(x))\n"
                "    if isinstance(x, list):\n"
                "        if x and isinstance(x[0], list):\n"
                "            x[0].append(9)\n"
                "        x.append(9)\n"
                "    else:\n"
                "        x['k'] = 9\n"
                "    return len(x)\n"
            )
            mut = prog.mut
            make = [lambda: [1], lambda: {"a": 1}, lambda: [[1], 2]][shape]
            cover(["list", "dict", "nested"][shape])
            arg = make()
            if form == 0:
                r1 = mut(arg)
                r2 = mut(arg)
            elif form == 1:
                r1 = mut(x=arg)
                r2 = mut.partial(arg)()
            else:
                cover("batch-shares-one-object")
                r1, r2 = mut.call_batch([{"x": arg}, {"x": arg}])
            check("caller's-object-is-untouched", _cat_same(arg, make()), (repr(arg), repr(make())))
            check("repeated-call-with-the-same-object-is-a-hit", len(prog.trace) == 1 and r1 == r2, (list(prog.trace), r1, r2))
            mem = mut.memento(make())
            check("memoized-under-the-original-argument", mem is not None, None)
            # (what the memento RECORDS as arguments after a body mutated its normalised copy is not part of C04)
        finally:
            prog.close()
            sb.close()


@obligation(
    "C04.partial_isolation",
    covers=("child-kwargs", "child-args", "chain"),
    split={"form": [0, 1, 2]},
    bounds="p = g2.partial(...) is used, then q = p.partial(...) is derived from it (keyword / positional / both, two levels), then p is "
           "used again: p's key, effective kwargs and reference are what they were before q existed; symbolic bound values",
    variables="data: v, w (scalars); choice: form",
    stubs=STUBS,
    budget_s={"quick": 170, "thorough": 400},
    data_vars=2, choice_vars=1,
)
def partial_isolation(v: ScalarNF, w: int, form: int):
    _dom(v)
    _dom(w)
    with hashing_stubs():
        if form == 0:
            cover("child-kwargs")
            p = G2.partial(x=v)
            call_p = lambda: FunctionReferenceWithArguments(p.fn_reference(), (), {"y": 0})  # noqa: E731
            derive = lambda: p.partial(z=w)  # noqa: E731  (binds a parameter the parent's own calls leave at its default)
            want = {"x": v, "y": 0}
        elif form == 1:
            cover("child-args")
            p = G2.partial(v)
            call_p = lambda: FunctionReferenceWithArguments(p.fn_reference(), (0,), {})  # noqa: E731
            derive = lambda: p.partial(w)  # noqa: E731
            want = {"x": v, "y": 0}
        else:
            cover("chain")
            p = G2.partial(x=v)
            call_p = lambda: FunctionReferenceWithArguments(p.fn_reference(), (), {"y": 0})  # noqa: E731
            derive = lambda: p.partial(z=w).partial(y=w)  # noqa: E731
            want = {"x": v, "y": 0}
        before = call_p()
        k0, e0 = _key(before), dict(before.effective_kwargs)
        q = derive()
        qa = FunctionReferenceWithArguments(q.fn_reference(), (), {}) if form != 1 else FunctionReferenceWithArguments(q.fn_reference(), (), {})
        after = call_p()
        check("deriving-a-partial-does-not-change-the-parent's-key", _key(after) == k0, lambda: (k0, _key(after)))
        check("parent's-effective-kwargs-unchanged", same(after.effective_kwargs, e0) and set(after.effective_kwargs) == set(want),
              lambda: (after.effective_kwargs, e0))
        check("child-carries-both-bindings", same(qa.effective_kwargs.get("x"), v) and
              same(qa.effective_kwargs.get("z" if form != 1 else "y"), w), lambda: qa.effective_kwargs)
