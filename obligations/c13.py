"""
C13 - the in-process version cache is coherent with a from-scratch computation.

A bounded history of in-process events is applied to a generated program; every version query is
compared with what an (emulated) fresh process computes for the resulting program text.
"""
import twosigma.memento as m

from vp.engine import assume, check, cover, note, obligation, pick
from vp.memenv import Program, Sandbox, clear_process_state, concrete_region

MOD = "vpc13"

# program state -> source text. f (memento) -> h (plain) -> g (memento or plain); h reads global G and list L and names
# the initially undefined symbol u.


def src_f(v):
    return "@m.memento_function\ndef f(x):\n    return h(x) + %d\n" % (10 + v)


def src_g(v, kind, declared=False):
    deco = ("@m.memento_function(dependencies=[k])\n" if declared else "@m.memento_function\n") if kind == "m" else ""
    return "%sdef g(x):\n    return x * %d\n" % (deco, 2 + v)


SRC_K = "@m.memento_function\ndef k(x):\n    return x\n"


def src_h(v):
    return ("def h(x):\n    if 'u' in globals():\n        u()\n    if hasattr(CFG, 'limit'):\n        CFG.limit\n"
            "    return g(x) + G + len(L) + len(T[1]) + %d\n" % v)


def src_globals(gv, ln, gk="int", tn=0, cfg=None):
    g = {"int": "G = %d\n" % gv, "fn": "def G():\n    return %d\n" % gv, "obj": "G = object()\n"}[gk]
    # CFG: an instance whose attribute `limit` is undefined at first and later defined on the class or on the instance
    c = "class Cfg:\n%s\nCFG = Cfg()\n%s" % ("    limit = 10" if cfg == "class" else "    pass", "CFG.limit = 10\n" if cfg == "instance" else "")
    # T: a tuple (immutable, identity never changes) holding a list that is mutated in place
    return g + c + "L = %r\nT = (0, %r)\n" % (list(range(ln)), list(range(tn)))


SRC_LEN = "def len(x):\n    return 3\n"  # a module-level function shadowing the builtin that h uses


def src_u():
    return "def u():\n    return 0\n"


TWIN = "vpc13twin"


def twin_text(hv):
    """another module defining a plain helper h with the SAME text as the program's, but other module-level values behind the names"""
    return "G = 100\nL = [9, 9, 9]\nT = (0, [9])\nclass Cfg:\n    pass\nCFG = Cfg()\ndef g(x):\n    return x * 50\n" + src_h(hv)


def ensure_twin(hv):
    import sys
    import types
    import linecache

    mod = sys.modules.get(TWIN)
    if mod is None or getattr(mod, "_vp_hv", None) != hv:
        mod = types.ModuleType(TWIN)
        mod.__package__ = ""
        mod.__file__ = "<vp:%s>" % TWIN
        text = twin_text(hv)
        fname = "<vp:%s:%d>" % (TWIN, hv)
        linecache.cache[fname] = (len(text), None, text.splitlines(True), fname)
        exec(compile(text, fname, "exec"), mod.__dict__)
        mod._vp_hv = hv
        sys.modules[TWIN] = mod
    return mod


def full_text(st):
    t = src_globals(st["G"], st["L"], st.get("Gk", "int"), st.get("T", 0), st.get("cfg"))
    if st["u"]:
        t += src_u()
    if st.get("len"):
        t += SRC_LEN
    t += SRC_K + src_g(st["g"], st["gk"], st.get("gd", False))
    if st.get("htwin"):
        t += "import %s\nh = %s.h\n" % (TWIN, TWIN)
    else:
        t += src_h(st["h"])
    return t + src_f(st["f"])


EVENTS = ["redef-f", "redef-g", "redef-h", "rebind-G", "mutate-L", "define-u", "g-to-plain", "g-to-memento",
          "clone-partial", "clone-context", "clone-force-local", "wrapper", "query-f", "query-g", "query-clone", "query-wrapper",
          "redef-f-same", "rebind-G-to-function", "rebind-G-to-object", "undo-g", "mutate-T-inner", "g-declares-dependency", "rebind-h-to-twin-from-another-module",
          "define-attribute-on-the-class", "define-attribute-on-the-instance", "define-global-shadowing-a-builtin"]


LAST_EVENTS = [EVENTS.index(e) for e in ("query-f", "query-g", "query-clone", "query-wrapper", "rebind-G", "mutate-L", "redef-g", "redef-h", "define-u",
                                          "define-attribute-on-the-class")]


def fresh_versions(st):
    """what a fresh process computes for the current program text"""
    if st.get("htwin"):
        ensure_twin(st["h"])
    saved = (dict(m.MementoFunction._global_fn_version_cache), m.MementoFunction._global_fn_generation)
    from twosigma.memento import configuration as cfg

    reg = (set(cfg._registered_function_names), {k: list(v) for k, v in cfg._registered_functions.items()})
    import sys

    old_mod = sys.modules.get(MOD)
    try:
        clear_process_state()
        p = Program(MOD)
        p.exec(full_text(st))
        out = {"f": p.f.version()}
        if st["gk"] == "m":
            out["g"] = p.g.version()
        p.close()
        return out
    finally:
        if old_mod is not None:
            sys.modules[MOD] = old_mod
        m.MementoFunction._global_fn_version_cache.clear()
        m.MementoFunction._global_fn_version_cache.update(saved[0])
        m.MementoFunction._global_fn_generation = saved[1]
        cfg._registered_function_names.clear()
        cfg._registered_function_names.update(reg[0])
        cfg._registered_functions.clear()
        for k, v in reg[1].items():
            cfg._registered_functions[k] = list(v)


def _history(events, L, warm):
    sb = Sandbox(kinds="memory")
    prog = Program(MOD)
    st = {"f": 0, "g": 0, "gk": "m", "h": 0, "G": 1, "L": 0, "u": False}
    clone = None
    wrapper = None
    try:
        prog.exec(full_text(st))
        if warm:
            prog.f.version()  # populate the version cache before the history starts
            cover("warm-cache")
        for step, ev in enumerate(events[:L]):
            name = EVENTS[ev]
            if name == "redef-f":
                st["f"] += 1
                prog.exec(src_f(st["f"]))
                # clones / wrappers of the previous edition of f are handles to code that is no longer part of the
                # program (they run, and are versioned as, the old edition): out of scope from here on
                clone = None
                wrapper = None
            elif name == "redef-f-same":
                prog.exec(src_f(st["f"]))
            elif name == "redef-g":
                st["g"] += 1
                prog.exec(src_g(st["g"], st["gk"], st.get("gd", False)))
            elif name == "redef-h":
                st["h"] += 1
                st["htwin"] = False
                prog.exec(src_h(st["h"]))
            elif name == "rebind-h-to-twin-from-another-module":
                # the name h now refers to a textually identical plain function of ANOTHER module (its G, L, T, g are other objects)
                st["htwin"] = True
                prog.mod.h = ensure_twin(st["h"]).h
                cover("helper-replaced-by-identical-text-from-another-module")
            elif name == "rebind-G":
                st["G"] += 1
                st["Gk"] = "int"
                prog.exec("G = %d\n" % st["G"])
            elif name == "rebind-G-to-function":
                # the tracked variable becomes something memento cannot serialise: a plain function ...
                st["G"] += 1
                st["Gk"] = "fn"
                prog.exec("def G():\n    return %d\n" % st["G"])
            elif name == "rebind-G-to-object":
                # ... or an arbitrary object
                st["Gk"] = "obj"
                prog.exec("G = object()\n")
            elif name == "mutate-T-inner":
                # in-place mutation of a list held by a tracked TUPLE (the tuple object itself never changes identity)
                st["T"] = st.get("T", 0) + 1
                prog.T[1].append(st["T"] - 1)
            elif name == "g-declares-dependency":
                # g is re-defined with an identical body but now DECLARES a dependency (toggles)
                if st["gk"] != "m":
                    continue
                st["gd"] = not st.get("gd", False)
                prog.exec(src_g(st["g"], "m", st["gd"]))
            elif name == "undo-g":
                # g goes back to its previous edition (same text, hence same version, as one registered earlier)
                if st["g"] == 0:
                    continue
                st["g"] -= 1
                prog.exec(src_g(st["g"], st["gk"], st.get("gd", False)))
                cover("definition-restored")
            elif name in ("define-attribute-on-the-class", "define-attribute-on-the-instance"):
                # the dotted symbol CFG.limit, undefined so far, becomes defined: as a class-level default or in the instance's own namespace
                if st.get("cfg") or st.get("htwin"):
                    continue
                st["cfg"] = "class" if name.endswith("class") else "instance"
                prog.exec("Cfg.limit = 10\n" if st["cfg"] == "class" else "CFG.limit = 10\n")
                cover("dotted-symbol-defined-late")
            elif name == "define-global-shadowing-a-builtin":
                # h calls len(..): so far the builtin; the module now binds its own plain function of that name
                if st.get("len") or st.get("htwin"):
                    continue
                st["len"] = True
                prog.exec(SRC_LEN)
                cover("builtin-shadowed-late")
            elif name == "mutate-L":
                st["L"] += 1
                prog.L.append(st["L"] - 1)
            elif name == "define-u":
                st["u"] = True
                prog.exec(src_u())
            elif name == "g-to-plain":
                st["gk"] = "p"
                st["gd"] = False
                prog.exec(src_g(st["g"], "p"))
            elif name == "g-to-memento":
                st["gk"] = "m"
                prog.exec(src_g(st["g"], "m", st.get("gd", False)))
            elif name == "clone-partial":
                clone = prog.f.partial(1)
            elif name == "clone-context":
                clone = prog.f.with_context_args({"a": 1})
            elif name == "clone-force-local":
                clone = prog.f.force_local()
            elif name == "wrapper":
                wrapper = m.MementoFunction(prog.f.fn, register_fn=False)
            else:
                # a query
                target = {"query-f": prog.f, "query-g": prog.g if st["gk"] == "m" else None,
                          "query-clone": clone, "query-wrapper": wrapper}[name]
                if target is None:
                    continue
                cover("query")
                if name == "query-clone":
                    cover("query-clone")
                if name == "query-wrapper":
                    cover("query-wrapper")
                if step > 0:
                    cover("query-after-event")
                expect = fresh_versions(st)
                key = "g" if name == "query-g" else "f"
                try:
                    got = target.version()
                except Exception as e:  # noqa
                    check("version-query-succeeds", False, (name, type(e).__name__, str(e)[:200], [EVENTS[e_] for e_ in events[:L]]))
                check("version-equals-fresh-process-computation", got == expect[key],
                      (name, got, expect[key], [EVENTS[e_] for e_ in events[:L]], dict(st)))
        # final queries on the registered functions, always
        expect = fresh_versions(st)
        check("final-f-version-equals-fresh-process", prog.f.version() == expect["f"], ([EVENTS[e_] for e_ in events[:L]], dict(st)))
        if st["gk"] == "m":
            check("final-g-version-equals-fresh-process", prog.g.version() == expect["g"], ([EVENTS[e_] for e_ in events[:L]], dict(st)))
        check("fn-reference-carries-the-version", prog.f.fn_reference().qualified_name.endswith("#" + prog.f.version()), None)
    finally:
        prog.close()
        sb.close()


@obligation(
    "C13.histories",
    covers=("query", "query-clone", "query-wrapper", "query-after-event", "warm-cache", "definition-restored", "helper-replaced-by-identical-text-from-another-module", "dotted-symbol-defined-late", "builtin-shadowed-late"),
    split={"e0": list(range(len(EVENTS)))},
    bounds="all event sequences of length <= L over %d events (redefine f/g/h, restore g's previous edition, re-define g with the same body but a declared dependency, rebind / mutate tracked variables (incl. a list inside a tracked tuple), rebind the plain helper to a textually identical function of another module, rebind a tracked variable to a function / an "
           "arbitrary object, define an undefined "
           "symbol, define an undefined attribute of a tracked instance on its class / on the instance, define a module-level function shadowing a builtin the helper uses, memento<->plain, three kinds of modifier clone, unregistered wrapper, version queries of f/g/clone/wrapper) on the "
           "program f -> h -> g with globals G, L; L = 3 quick; thorough: 4 with the fourth event from 10 (the 4 queries, 6 edits); version cache warm or cold at the start" % len(EVENTS),
    variables="choice: e0..e3 (event indices), warm bit",
    tier_args={"quick": {"L": 3}, "thorough": {"L": 4}},
    budget_s={"quick": 170, "thorough": 1800},
    choice_vars=5,
)
def histories(e0: int, e1: int, e2: int, e3: int, warm: bool, L: int):
    n = len(EVENTS)
    evs = [e0, pick(e1, n), pick(e2, n)]
    if L >= 4:
        # the fourth event: the four queries and six edits (a full fourth factor of 26 would not exhaust inside the thorough budget)
        evs.append(LAST_EVENTS[pick(e3, len(LAST_EVENTS))])
    else:
        assume(e3 == 0)
    w = True if warm else False
    with concrete_region():
        _history(evs, L, w)
