"""
C03 - function versions are deterministic, so unchanged programs reuse stored results.

The hash seed reaches pure-Python code through the iteration order / repr order of sets of strings.
Those are replaced by arbitrary-order containers whose order is a (symbolic) choice.
"""
import itertools
import json
import os
import subprocess
import sys

import twosigma.memento as m
from twosigma.memento import code_hash as ch
from twosigma.memento import memento as mm

from vp.coderec import CodeRecord, FnRecord, record_model
from vp.engine import assume, check, cover, note, obligation, pick
from vp.memenv import Program, Sandbox, clear_process_state, concrete_region
from vp.progen import FORMS, gen_graph_source
from vp.stubs import ArbitraryOrderFrozenset, PermutedSet

ELEMS = ["a", "b", "c"]
PERMS = list(itertools.permutations(range(3)))


@obligation(
    "C03.const_order",
    covers=("different-orders", "nested-in-tuple", "element-differs"),
    split={"where": ["const", "in-tuple", "nested-code"], "p1": [0, 1, 2, 3, 4, 5]},
    bounds="code record with a frozenset constant of 3 strings (the third from a catalogue of 4) at the top level of co_consts, inside a "
           "tuple constant, or in a nested code object; the set is iterated / rendered in two independently chosen orders (6 x 6)",
    variables="choice: p1, p2 (permutation indices), third element, where",
    stubs=("CodeRecord model of types.CodeType (documented attributes)", "InterningDigest replaces hashlib inside code_hash",
           "ArbitraryOrderFrozenset: iteration/repr order of a set of strings is a free choice (hash randomisation)"),
    budget_s={"quick": 170, "thorough": 600},
    choice_vars=4,
)
def const_order(si: int, ti: int, p1: int, p2: int, where: str):
    s = ["c", "d", "ab", ""][pick(si, 4)]
    t = ["c", "d", "ab", ""][pick(ti, 4)]
    p2 = pick(p2, 6)
    if p1 != p2:
        cover("different-orders")

    def build(perm, last):
        items = ["a", "b", last]
        fs = ArbitraryOrderFrozenset(items, [items[i] for i in PERMS[perm]])
        if where == "const":
            code = CodeRecord(co_consts=(None, fs))
        elif where == "in-tuple":
            cover("nested-in-tuple")
            code = CodeRecord(co_consts=(None, (1, fs)))
        else:
            code = CodeRecord(co_consts=(None, CodeRecord(co_name="<lambda>", co_consts=(fs,))))
        return FnRecord(code)

    with record_model():
        h1 = ch.fn_code_hash(build(p1, s))
        h2 = ch.fn_code_hash(build(p2, s))
        check("hash-independent-of-set-order", h1 == h2, (p1, p2))
        h3 = ch.fn_code_hash(build(p2, t))
        if s != t:
            cover("element-differs")
        check("hash-still-sensitive-to-the-elements", (h1 == h3) == (s == t), (s, t))


MOD = "vpgraph"


def _versions(prog, n, kinds):
    out = {}
    for i in range(n):
        if kinds[i] == "m":
            f = getattr(prog, "n%d" % i)
            out[i] = (f.version(), [r.key for r in f.hash_rules()],
                      sorted(x.qualified_name_without_version for x in f.dependencies().transitive_memento_fn_dependencies()))
    return out


def _graph(n, mask):
    adj = [[0] * n for _ in range(n)]
    k = 0
    for i in range(n):
        for j in range(n):
            adj[i][j] = (mask >> k) & 1
            k += 1
    return adj


class _PermutingDotted:
    """list_dotted_names stand-in returning the real set, iterated in a chosen order"""

    def __init__(self, real, perm_index):
        self.real = real
        self.perm_index = perm_index

    def __call__(self, fn):
        return PermutedSet(self.real(fn), self.perm_index)


@obligation(
    "C03.traversal_order",
    covers=("non-identity-order", "has-deps"),
    split={"forms_mode": [0, 4]},
    tier_split={"quick": {"kmask": [7, 5], "perm": [1, 3, 5]}, "thorough": {"kmask": [7, 5, 3, 6], "perm": [1, 2, 3, 4, 5]}},
    bounds="all reference graphs over 3 nodes (2^9) x kind assignments (quick 2, thorough 4) x {bare, mixed} reference forms; every set of "
           "dotted names returned by list_dotted_names is iterated in a chosen permutation (quick 3, thorough 5 non-identity choices, applied "
           "to all name sets of the program): "
           "versions, ordered rule keys and dependency sets equal those of the sorted order",
    variables="choice: adjacency mask, permutation index",
    stubs=("PermutedSet: iteration order of the sets of dotted names is a free choice (hash randomisation)",),
    budget_s={"quick": 170, "thorough": 900},
    choice_vars=2,
)
def traversal_order(amask: int, perm: int, kmask: int, forms_mode: int):
    amask = pick(amask, 512)
    with concrete_region():
        n = 3
        kinds = ["m" if (kmask >> i) & 1 else "p" for i in range(n)]
        adj = _graph(n, amask)
        forms = [[FORMS[forms_mode] if forms_mode < 4 else FORMS[(i + 2 * j) % 4] for j in range(n)] for i in range(n)]
        src = gen_graph_source(n, kinds, adj, forms, module=MOD)
        results = []
        real = ch.list_dotted_names
        for p in (0, perm):
            sb = Sandbox(kinds="memory")
            clear_process_state()
            stub = _PermutingDotted(real, p)
            ch.list_dotted_names = stub
            mm.list_dotted_names = stub
            prog = Program(MOD)
            try:
                prog.exec(src)
                results.append(_versions(prog, n, kinds))
            finally:
                ch.list_dotted_names = real
                mm.list_dotted_names = real
                prog.close()
                sb.close()
        if perm:
            cover("non-identity-order")
        if any(v[2] for v in results[0].values()):
            cover("has-deps")
        check("versions-rule-order-and-dependencies-independent-of-set-order", results[0] == results[1], (results[0], results[1]))


ALIAS_KINDS = ["force_local-clone", "partial-clone", "plain-alias", "context-clone", "clone-of-clone", "wrapped-by-functools"]
ALIAS_SRC = (
    "import functools\n"
    "def helper(x):\n    return x + K\n"
    "K = 1\n"
    "@m.memento_function\n"
    "def f(x=0):\n    return helper(x) + 1\n"
    "%(alias)s\n"
    "@m.memento_function\n"
    "def g(x):\n    return %(body)s\n"
    "@m.memento_function\n"
    "def top(x):\n    return g(x) + 1\n"
)
ALIAS_DEFS = {
    "force_local-clone": "f2 = f.force_local()", "partial-clone": "f2 = f.partial(x=1)", "plain-alias": "f2 = f",
    "context-clone": "f2 = f.with_context_args({'k': 1})", "clone-of-clone": "f2 = f.force_local().ignore_result()",
    "wrapped-by-functools": "f2 = functools.wraps(f)(lambda *a, **k: f(*a, **k))",
}
ALIAS_BODIES = ["f(x) + 1", "(f2(x) or 0) + 1", "f(x) + (f2(x) or 0)", "(f2(x) or 0) + f(x) + helper(x)"]


@obligation(
    "C03.alias_order",
    covers=("both-names-referenced", "non-identity-order"),
    split={"ak": list(range(len(ALIAS_KINDS)))},
    bounds="g references a memento function f and / or a module-level alias of it (a force_local / partial / with_context_args clone, a "
           "clone of a clone, a plain second name, a functools.wraps wrapper) in 4 body shapes; every set of dotted names is iterated in "
           "each of up to 24 orders: the versions, rule keys and dependency sets of g and of its caller top are those of the sorted order",
    variables="choice: alias kind, body shape, permutation index",
    stubs=("PermutedSet: iteration order of the sets of dotted names is a free choice (hash randomisation)",),
    budget_s={"quick": 120, "thorough": 300},
    choice_vars=3,
)
def alias_order(ak: int, body: int, perm: int):
    body = pick(body, len(ALIAS_BODIES))
    perm = pick(perm, 24)
    with concrete_region():
        src = ALIAS_SRC % {"alias": ALIAS_DEFS[ALIAS_KINDS[ak]], "body": ALIAS_BODIES[body]}
        if "f(x)" in ALIAS_BODIES[body] and "f2" in ALIAS_BODIES[body]:
            cover("both-names-referenced")
        if perm:
            cover("non-identity-order")
        results = []
        real = ch.list_dotted_names
        for p_ in (0, perm):
            sb = Sandbox(kinds="memory")
            clear_process_state()
            stub = _PermutingDotted(real, p_)
            ch.list_dotted_names = stub
            mm.list_dotted_names = stub
            prog = Program(MOD)
            try:
                prog.exec(src)
                out = {}
                for nm in ("g", "top"):
                    fn = getattr(prog, nm)
                    out[nm] = (fn.version(), sorted(r.key for r in fn.hash_rules()),
                               sorted(x.qualified_name_without_version for x in fn.dependencies().transitive_memento_fn_dependencies()))
                results.append(out)
            finally:
                ch.list_dotted_names = real
                mm.list_dotted_names = real
                prog.close()
                sb.close()
        check("versions-rules-and-dependencies-independent-of-set-order", results[0] == results[1],
              (ALIAS_KINDS[ak], ALIAS_BODIES[body], perm, results[0], results[1]))


XPKG_LIB = (
    "K = 3\n"
    "def pb(x):\n    return x + K\n"
    "def pb2(x):\n    return x * 2\n"
    "@m.memento_function\n"
    "def mb(x):\n    return pb2(x) + 1\n"
    "@m.memento_function\n"
    "def mb2(x):\n    return x\n"
)
XPKG_BODIES = ["lib.mb(x) + lib.pb(x)", "lib.pb(x) + lib.mb(x) + lib.mb2(x)", "lib.pb(x) + helper(x)", "lib.mb(x) + lib.pb(x) + lib.pb2(x) + lib.K"]
XPKG_APP = (
    "def helper(x):\n    return lib.mb2(x) + lib.pb2(x)\n"
    "@m.memento_function\n"
    "def report(x):\n    return %s\n"
    "@m.memento_function\n"
    "def top(x):\n    return report(x) + 1\n"
)


@obligation(
    "C03.cross_package_order",
    covers=("non-identity-order",),
    bounds="a function of package vpka references memento functions, plain functions and a variable of ANOTHER package vpkb (through the "
           "module object, 4 body shapes, also via a plain helper of its own package); every set of dotted names is iterated in each of "
           "up to 24 orders: versions, rule keys and dependency sets of the function and of its caller are those of the sorted order "
           "(whatever is or is not tracked across the package border must not depend on which name is visited first)",
    variables="choice: body shape, permutation index",
    stubs=("PermutedSet: iteration order of the sets of dotted names is a free choice (hash randomisation)",),
    budget_s={"quick": 120, "thorough": 300},
    choice_vars=2,
)
def cross_package_order(body: int, perm: int):
    body = pick(body, len(XPKG_BODIES))
    perm = pick(perm, 24)
    with concrete_region():
        if perm:
            cover("non-identity-order")
        results = []
        real = ch.list_dotted_names
        for p_ in (0, perm):
            sb = Sandbox(kinds="memory")
            clear_process_state()
            stub = _PermutingDotted(real, p_)
            ch.list_dotted_names = stub
            mm.list_dotted_names = stub
            lib = Program("vpkb.lib", package="vpkb")
            app = Program("vpka.app", package="vpka")
            try:
                lib.exec(XPKG_LIB)
                app.mod.__dict__["lib"] = lib.mod
                app.exec(XPKG_APP % XPKG_BODIES[body])
                out = {}
                for nm in ("report", "top"):
                    fn = getattr(app, nm)
                    out[nm] = (fn.version(), sorted(r.key for r in fn.hash_rules()),
                               sorted(x.qualified_name_without_version for x in fn.dependencies().transitive_memento_fn_dependencies()))
                results.append(out)
            finally:
                ch.list_dotted_names = real
                mm.list_dotted_names = real
                app.close()
                lib.close()
                sb.close()
        check("versions-rules-and-dependencies-independent-of-set-order", results[0] == results[1],
              (XPKG_BODIES[body], perm, results[0], results[1]))


@obligation(
    "C03.definition_query_order",
    covers=("permuted-definition", "permuted-queries"),
    split={"dperm": list(range(6))},
    bounds="graphs over 3 memento/plain nodes without self loops (2^6) x kinds {mmm, mpm}: the functions are defined in any of the 6 orders "
           "and their versions first queried in any of the 6 orders; all versions equal those of the canonical order",
    variables="choice: adjacency mask, definition permutation, query permutation, kinds",
    budget_s={"quick": 170, "thorough": 900},
    choice_vars=4,
)
def definition_query_order(amask: int, dperm: int, qperm: int, mixed: bool):
    amask = pick(amask, 64)
    qperm = pick(qperm, 6)
    mx = True if mixed else False
    with concrete_region():
        n = 3
        kinds = ["m", "p" if mx else "m", "m"]
        adj = [[0] * n for _ in range(n)]
        k = 0
        for i in range(n):
            for j in range(n):
                if i != j:
                    adj[i][j] = (amask >> k) & 1
                    k += 1
        forms = [["bare"] * n for _ in range(n)]
        # split the generated source into per-function chunks so that they can be defined in any order
        full = gen_graph_source(n, kinds, adj, forms, module=MOD)
        chunks = _chunks(full)
        results = []
        for (dp, qp) in ((0, 0), (dperm, qperm)):
            sb = Sandbox(kinds="memory")
            clear_process_state()
            prog = Program(MOD)
            try:
                prog.exec(chunks["head"])
                for i in PERMS[dp]:
                    prog.exec(chunks[i])
                prog.exec(chunks["tail"])
                vs = {}
                for i in PERMS[qp]:
                    if kinds[i] == "m":
                        vs[i] = getattr(prog, "n%d" % i).version()
                results.append(vs)
            finally:
                prog.close()
                sb.close()
        if dperm:
            cover("permuted-definition")
        if qperm:
            cover("permuted-queries")
        check("versions-independent-of-definition-and-query-order", results[0] == results[1], (results[0], results[1]))


HELD_SRC = (
    "G = 1\n"
    "L = [1]\n"
    "def h():\n"
    "    t = 0\n"
    "    for i in range(len(L) + 2):\n"
    "        t = t + i * 0\n"
    "    return t + 1\n"
    "@m.memento_function\n"
    "def a(x=0):\n"
    "    return G + L[0] + h() + x\n"
    "@m.memento_function\n"
    "def b():\n"
    "    return a() + 1\n"
    "@m.memento_function\n"
    "def c():\n"
    "    return a.force_local()() + b() + 2\n"
)
HELD_EVENTS = ["none", "rebind-G", "mutate-L", "rebind-h", "redefine-a", "redefine-a-identically", "rebind-G-and-back",
               "run-bodies-and-define-an-unrelated-function"]
HELD_NO_CHANGE = ("none", "redefine-a-identically", "rebind-G-and-back", "run-bodies-and-define-an-unrelated-function")
HELD_HANDLES = ["a", "b", "c", "a.force_local", "a.partial", "b.ignore_result", "c.with_context_args", "clone-of-clone"]
HELD_FIRST = [(), (0,), (3,), (3, 4, 5, 6, 7), (0, 1, 2, 3, 4, 5, 6, 7)]


def _held_event(prog, ev):
    d = prog.mod.__dict__
    if ev == "rebind-G":
        d["G"] = 2
    elif ev == "mutate-L":
        d["L"][0] = 5
    elif ev == "rebind-h":
        prog.exec("def h():\n    t = 0\n    for i in range(len(L) + 2):\n        t = t + i * 0\n    return t + 2\n")
    elif ev == "redefine-a":
        prog.exec("@m.memento_function\ndef a(x=0):\n    return G + L[0] + h() + x + 10\n")
    elif ev == "redefine-a-identically":
        prog.exec("@m.memento_function\ndef a(x=0):\n    return G + L[0] + h() + x\n")
    elif ev == "rebind-G-and-back":
        d["G"] = 2
        d["_held"][3].version()
        d["G"] = 1
    elif ev == "run-bodies-and-define-an-unrelated-function":
        # executing code is not an edit (the interpreter may specialise the bytecode of what ran); defining another memento
        # function afterwards makes every cached version be re-validated
        for _ in range(40):
            d["h"]()
            d["a"].fn(1)
            d["b"].fn()
        prog.exec("@m.memento_function\ndef unrelated():\n    return 0\n")


@obligation(
    "C03.held_handles_query_order",
    covers=("event", "clone-queried-before-its-source", "nothing-queried-before-the-event", "event-that-changes-nothing"),
    split={"ev": list(range(len(HELD_EVENTS))), "first": list(range(len(HELD_FIRST)))},
    bounds="program a (reads a global, a list global, a plain helper), b -> a, c -> a.force_local(), b; handles held in variables from the "
           "start: a, b, c and the modifier clones a.force_local(), a.partial(x=1), b.ignore_result(), c.with_context_args(..), "
           "a.force_local().ignore_result(); a subset of the handles (5 choices: none, a, one clone, all clones, all) is queried first; then "
           "one of %d events (global rebound / list mutated in place / helper rebound / a redefined / redefined identically / global rebound, "
           "a clone queried, and bound back / the bodies executed 40 times and an unrelated memento function defined); then the 8 handles are queried in any rotation of any of 6 base orders (48) - the versions "
           "equal those of the canonical order in a process that queried nothing before, every clone has its source's version, and an event "
           "that leaves the program as it was leaves every version as it was" % len(HELD_EVENTS),
    variables="choice: event, first-queried subset, base order, rotation",
    budget_s={"quick": 170, "thorough": 600},
    choice_vars=4,
)
def held_handles_query_order(ev: int, first: int, base: int, rot: int):
    base = pick(base, 6)
    rot = pick(rot, 8)
    with concrete_region():
        n = len(HELD_HANDLES)
        bases = [list(range(n)), list(reversed(range(n))), [3, 4, 5, 6, 7, 0, 1, 2], [7, 2, 5, 1, 4, 0, 6, 3], [1, 3, 0, 5, 2, 7, 4, 6], [6, 0, 4, 2, 7, 3, 1, 5]]
        order = bases[base][rot:] + bases[base][:rot]
        results = []
        runs = [((), list(range(n)), ev), (HELD_FIRST[first], order, ev)]
        if HELD_EVENTS[ev] in HELD_NO_CHANGE:
            runs.append(((), list(range(n)), 0))  # the same program, nothing having happened
        for (fs, od, ev_) in runs:
            sb = Sandbox(kinds="memory")
            clear_process_state()
            prog = Program("vpc03held")
            try:
                prog.exec(HELD_SRC)
                a, b, c = prog.a, prog.b, prog.c
                held = [a, b, c, a.force_local(), a.partial(x=1), b.ignore_result(), c.with_context_args({"k": 1}), a.force_local().ignore_result()]
                prog.mod.__dict__["_held"] = held
                for i in fs:
                    held[i].version()
                _held_event(prog, HELD_EVENTS[ev_])
                vs = {}
                for i in od:
                    vs[i] = held[i].version()
                results.append([vs[i] for i in range(n)])
            finally:
                prog.close()
                sb.close()
        if ev:
            cover("event")
        if not HELD_FIRST[first]:
            cover("nothing-queried-before-the-event")
        if min(order.index(i) for i in (3, 4, 7)) < order.index(0):
            cover("clone-queried-before-its-source")
        # ONE label for both parts: which part fails first may differ between the traced run and the native replay when a change under
        # test makes versions depend on interpreter-internal state (e.g. specialised bytecode)
        ok_order = results[0] == results[1]
        ok_nochange = True
        if HELD_EVENTS[ev] in HELD_NO_CHANGE:
            cover("event-that-changes-nothing")
            ok_nochange = results[1] == results[2] and results[0] == results[2]
        check("versions-are-a-function-of-the-program-only(not-of-query-order-nor-of-events-that-change-nothing)", ok_order and ok_nochange,
              (HELD_EVENTS[ev], HELD_FIRST[first], order, "query-order-part:%s no-change-part:%s" % (ok_order, ok_nochange), results))
        r = results[1]
        if HELD_EVENTS[ev] not in ("redefine-a", "redefine-a-identically"):
            # (a redefined function is a new object: handles on the old one keep describing the old one's code - not claimed here)
            check("clone-has-its-source-version", r[3] == r[0] and r[4] == r[0] and r[7] == r[0] and r[5] == r[1] and r[6] == r[2], r)


def _chunks(full):
    """split gen_graph_source output: head (imports), one chunk per function n<i>, tail (aliases / wrappers)"""
    lines = full.split("\n")
    out = {"head": [], "tail": []}
    cur = "head"
    pending_deco = []
    for ln in lines:
        if ln.startswith("@m.memento_function"):
            pending_deco = [ln]
            continue
        if ln.startswith("def n") and ln[5].isdigit():
            cur = int(ln[5])
            out[cur] = pending_deco + [ln]
            pending_deco = []
            continue
        if ln.startswith("a0 = "):
            cur = "tail"
        out.setdefault(cur, []).append(ln)
    return {k: "\n".join(v) + "\n" for k, v in out.items()}


CHILD = r'''
import sys, json, os
sys.path.insert(0, %(repo)r)
sys.path.insert(0, %(root)r)
import twosigma.memento as m
from twosigma.memento.storage_filesystem import FilesystemStorageBackend
env = m.Environment(name="vp", base_dir=%(root)r, repos=[])
env.default_cluster.storage = FilesystemStorageBackend(path=os.path.join(%(root)r, "store"))
m.Environment.set(env)
import collections
_trace = collections.deque()
import builtins
builtins._vp_trace = _trace  # bodies defined in other modules of the program log here
src = open(%(src)r).read()
import types
mod = types.ModuleType("vpchild"); mod.__package__ = ""; mod.__file__ = %(src)r
mod.__dict__["_trace"] = _trace; mod.__dict__["m"] = m
sys.modules["vpchild"] = mod
exec(compile(src, %(src)r, "exec"), mod.__dict__)
out = {"versions": {}, "results": {}}
for name in %(roots)r:
    f = getattr(mod, name)
    out["versions"][name] = f.version()
    out["results"][name] = repr(f())
out["bodies"] = len(_trace)
print("CHILD-JSON " + json.dumps(out))
'''

PROGRAMS = [
    # (name, source, roots): features that are seed-sensitive in CPython: set constants, sets of names, dict/global traversal
    ("set-constant",
     "@m.memento_function\ndef f(x='beta'):\n    _trace.append('f')\n    return x in {'alpha', 'beta', 'gamma', 'delta', 'epsilon'}\n", ["f"]),
    ("many-names",
     "A = 1\nB = 'b'\nC = [1, 2]\nD = {'k': 1, 'j': 2}\n"
     "def h1(x):\n    return x + A\n\ndef h2(x):\n    return str(x) + B\n\n"
     "@m.memento_function\ndef g(x=1):\n    _trace.append('g')\n    return len(C) + len(D)\n\n"
     "@m.memento_function\ndef f(x=1):\n    _trace.append('f')\n    return [h1(x), h2(x), g(x), zzz_undefined if False else 0]\n", ["f", "g"]),
    ("set-in-tuple-and-lambda",
     "@m.memento_function\ndef f(x=1):\n    _trace.append('f')\n    k = (1, frozenset({'u', 'v', 'w', 'x', 'y'}))\n    p = lambda s: s in {'one', 'two', 'three', 'four'}\n    return [p('two'), len(k)]\n",
     ["f"]),
    ("cycle",
     "@m.memento_function\ndef a(x=0):\n    _trace.append('a')\n    return b(x + 1) if x < 2 else x\n\n"
     "@m.memento_function\ndef b(x=0):\n    _trace.append('b')\n    return a(x + 1) if x < 2 else x\n", ["a", "b"]),
    # same-named module variables / helpers with different values in two modules of one dependency tree (rules that tie on type and
    # symbol name), several of them so that some set order differs between seeds
    ("same-named-globals-in-several-modules",
     "import vpm_a, vpm_b, vpm_c, vpm_d\n"
     "@m.memento_function\ndef f(x=1):\n    _trace.append('f')\n    return vpm_a.helper() + vpm_b.helper() + vpm_c.helper() + vpm_d.helper() + x\n",
     ["f"],
     {"vpm_%s.py" % n: "K = %d\nLIMIT = %d\ndef helper():\n    return K + LIMIT\n" % (i + 1, 10 * (i + 1)) for i, n in enumerate("abcd")}),
]
SEEDS = ["0", "1", "2", "12345"]


def write_files(root, files):
    """extra modules / packages of a program: {relative path: text}"""
    for rel, text in (files or {}).items():
        path = os.path.join(root, rel)
        os.makedirs(os.path.dirname(path), exist_ok=True)
        with open(path, "w") as f:
            f.write(text)


def run_child(root, src_path, roots, seed):
    code = CHILD % {"repo": os.environ.get("VP_REPO", "/repo"), "root": root, "src": src_path, "roots": roots}
    env = dict(os.environ)
    env["PYTHONHASHSEED"] = seed
    env["MEMENTO_LOG_LEVEL"] = "CRITICAL"
    p = subprocess.run(["/venv/bin/python", "-c", code], capture_output=True, text=True, env=env, timeout=120)
    for line in p.stdout.splitlines():
        if line.startswith("CHILD-JSON "):
            return json.loads(line[len("CHILD-JSON "):])
    raise RuntimeError("child failed: " + p.stderr[-800:])


@obligation(
    "C03.second_process",
    covers=("different-seeds",),
    split={"pi": list(range(len(PROGRAMS)))},
    bounds="%d programs with seed-sensitive features (set constants at top level / in tuples / in lambdas, many dotted names, globals, "
           "cycles) run in REAL child interpreters with PYTHONHASHSEED in {0,1,2,12345} (all ordered pairs of distinct seeds) against one "
           "filesystem store: identical versions, second process executes no body. (Real processes: validation of the arbitrary-order stubs.)" % len(PROGRAMS),
    variables="choice: program, first seed, second seed",
    budget_s={"quick": 170, "thorough": 600},
    choice_vars=3,
)
def second_process(pi: int, s1: int, s2: int):
    s1 = pick(s1, len(SEEDS))
    s2 = pick(s2, len(SEEDS))
    assume(s1 != s2)
    with concrete_region():
        import shutil
        import tempfile

        name, src, roots = PROGRAMS[pi][:3]
        root = tempfile.mkdtemp(prefix="vp-c03-", dir="/dev/shm")
        try:
            write_files(root, PROGRAMS[pi][3] if len(PROGRAMS[pi]) > 3 else None)
            sp = os.path.join(root, "prog.py")
            with open(sp, "w") as f:
                f.write(src)
            first = run_child(root, sp, roots, SEEDS[s1])
            second = run_child(root, sp, roots, SEEDS[s2])
            cover("different-seeds")
            check("first-process-computes", first["bodies"] >= 1, first)
            check("same-versions-in-both-processes", first["versions"] == second["versions"], (first["versions"], second["versions"]))
            check("second-process-executes-no-body", second["bodies"] == 0, second)
            check("same-results", first["results"] == second["results"], (first["results"], second["results"]))
        finally:
            shutil.rmtree(root, ignore_errors=True)


# ------------------------------------------------------------------------------------------------
# real second process with a different (but equivalent) definition / import / insertion order
# ------------------------------------------------------------------------------------------------

ORDER_PROGRAMS = [
    # (name, head, permutable chunks, tail, roots)
    ("factory-made-helpers-sharing-one-code-object",
     "def make(d):\n    def helper(x, k=d):\n        return x + k\n    return helper\n\nh1 = make(1)\nh2 = make(2)\n",
     ["@m.memento_function\ndef f1(x=1):\n    _trace.append('f1')\n    return h1(x)\n",
      "@m.memento_function\ndef f2(x=1):\n    _trace.append('f2')\n    return h2(x)\n"],
     "", ["f1", "f2"]),
    ("dict-global-filled-in-import-order",
     "REG = {}\n",
     ["REG['alpha'] = 1\n", "REG['beta'] = 2\n", "REG['gamma'] = 3\n"],
     "@m.memento_function\ndef f(x=1):\n    _trace.append('f')\n    return REG['alpha'] + REG['gamma'] + x\n", ["f"]),
    ("dict-global-filled-from-a-set",
     "REG = {}\nfor _n in {'alpha', 'beta', 'gamma', 'delta', 'epsilon', 'zeta'}:\n    REG[_n] = len(_n)\ndel _n\n",
     ["X = 1\n", "Y = 2\n"],
     "@m.memento_function\ndef f(x=1):\n    _trace.append('f')\n    return REG['alpha'] + X + Y + x\n", ["f"]),
    ("nested-dict-and-list-globals",
     "CFG = {}\n",
     ["CFG['b'] = {'y': 1, 'x': [1, 2]}\n", "CFG['a'] = {'q': None, 'p': 'v'}\n"],
     "@m.memento_function\ndef g(x=1):\n    _trace.append('g')\n    return len(CFG) + x\n\n"
     "@m.memento_function\ndef f(x=1):\n    _trace.append('f')\n    return g(x) + len(CFG['a'])\n", ["f", "g"]),
    # a memento function in package vpP depending on one in package vpQ that uses a plain helper of ITS package; unrelated functions are
    # defined before / after (generation bumps), roots queried in either order
    ("two-packages-with-a-helper-in-the-callee's-package",
     "from vpQ import g\nfrom vpP import f\n",
     ["@m.memento_function\ndef later1(x=1):\n    return x\n", "@m.memento_function\ndef later2(x=2):\n    return x\n", "unused_%d = f.version() if False else 0\n" % 1],
     "", ["f", "g"],
     {"vpQ/__init__.py": "import twosigma.memento as m\ndef qhelper(x):\n    return x * 7\n\n@m.memento_function\ndef g(x=1):\n    __import__('builtins')._vp_trace.append('g')\n    return qhelper(x)\n",
      "vpP/__init__.py": "import twosigma.memento as m\nfrom vpQ import g\n\n@m.memento_function\ndef f(x=1):\n    __import__('builtins')._vp_trace.append('f')\n    return g(x) + 1\n"}),
]


@obligation(
    "C03.second_process_orders",
    covers=("permuted-order", "different-seeds"),
    split={"pi": list(range(len(ORDER_PROGRAMS))), "rev_roots": [False, True]},
    bounds="%d programs whose equivalent texts differ only in the order of independent definitions / dict insertions (helpers made by one "
           "factory with different defaults; dict globals filled in import order, from a set, nested) run in REAL child interpreters: first "
           "process canonical order, second process any permutation of the chunks and of the root query order, PYTHONHASHSEED pairs (0,0), (0,1), (1,12345): "
           "identical versions, the second process executes no body" % len(ORDER_PROGRAMS),
    variables="choice: program, chunk permutation, root order, seed pair",
    budget_s={"quick": 170, "thorough": 600},
    choice_vars=4,
)
def second_process_orders(pi: int, perm: int, rev_roots: bool, sp: int):
    name, head, chunks, tail, roots = ORDER_PROGRAMS[pi][:5]
    extra_files = ORDER_PROGRAMS[pi][5] if len(ORDER_PROGRAMS[pi]) > 5 else None
    perms = list(itertools.permutations(range(len(chunks))))
    perm = pick(perm, len(perms))
    sp = pick(sp, 3)
    s1, s2 = [(0, 0), (0, 1), (1, 2)][sp]
    rr = True if rev_roots else False
    seeds = ["0", "1", "12345"]
    with concrete_region():
        import shutil
        import tempfile

        root = tempfile.mkdtemp(prefix="vp-c03o-", dir="/dev/shm")
        try:
            write_files(root, extra_files)
            sp1, sp2 = os.path.join(root, "prog1.py"), os.path.join(root, "prog2.py")
            with open(sp1, "w") as f:
                f.write(head + "".join(chunks) + tail)
            with open(sp2, "w") as f:
                f.write(head + "".join(chunks[i] for i in perms[perm]) + tail)
            first = run_child(root, sp1, roots, seeds[s1])
            second = run_child(root, sp2, list(reversed(roots)) if rr else roots, seeds[s2])
            if perm or rr:
                cover("permuted-order")
            if s1 != s2:
                cover("different-seeds")
            check("first-process-computes", first["bodies"] >= 1, first)
            check("same-versions-in-both-processes", first["versions"] == second["versions"], (first["versions"], second["versions"]))
            check("second-process-executes-no-body", second["bodies"] == 0, second)
            check("same-results", first["results"] == second["results"], (first["results"], second["results"]))
        finally:
            shutil.rmtree(root, ignore_errors=True)
