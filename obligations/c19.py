"""
C19 - read-only and null back-ends never write and never execute.
"""
import hashlib
import os

import twosigma.memento as m
from twosigma.memento.storage_filesystem import FilesystemStorageBackend
from twosigma.memento.storage_memory import MemoryStorageBackend

from vp import storemodel as sm
from vp.engine import assume, check, cover, note, obligation, pick
from vp.memenv import Program, Sandbox, concrete_region

OPS = sm.build_ops(values=("small", "oversize", "none"), metadata_with_data=True)


from vp.fsaudit import MutationAudit, tree_digest  # noqa: E402


RO_KINDS = ["fs", "fs+meta", "fs+cache:1", "fs-config-flag"]


def _open_readonly(sb, kind):
    path = os.path.join(sb.root, "default")
    if kind == "fs":
        return FilesystemStorageBackend(path=path, read_only=True), [path]
    if kind == "fs+meta":
        return FilesystemStorageBackend(path=path, metadata_path=path + "-meta", read_only=True), [path, path + "-meta"]
    if kind == "fs+cache:1":
        return FilesystemStorageBackend(path=path, memory_cache_mb=1, read_only=True), [path]
    # read-only flag coming from the configuration object instead of the argument
    return m.StorageBackend.create("filesystem", {"path": path, "readonly": True}), [path]


@obligation(
    "C19.histories",
    covers=("rejected", "silently-skipped", "reads-still-work", "store-with-crash-debris"),
    split={"kind": [0, 1, 2, 3], "pre": [0, 1, 2, 3]},
    tier_split={"thorough": {"kind": [0, 1, 2, 3], "pre": [0, 1, 2, 3], "o0": list(range(len(OPS)))}},
    bounds="a filesystem store pre-populated by a writable back-end (3 initial contents, plus one with crash debris: a memento link truncated to nothing and a dangling one) and reopened read-only (flag from argument or from "
           "configuration, shared / separate metadata path, with / without memory cache); all sequences of L=2 operations out of %d (the C05 "
           "alphabet); after every operation: no file-system mutation event under the store roots (audit hook), tree digest unchanged, all "
           "read-only queries still answer like the dictionary frozen at reopening" % len(OPS),
    variables="choice: o0, o1",
    budget_s={"quick": 400, "thorough": 900},
    tier_args={"quick": {"L": 2}, "thorough": {"L": 3}},
    choice_vars=3,
)
def histories(o0: int, o1: int, o2: int, kind: int, pre: int, L: int):
    o0 = pick(o0, len(OPS))
    o1 = pick(o1, len(OPS))
    if L >= 3:
        o2 = pick(o2, len(OPS))
    else:
        assume(o2 == 0)
    with concrete_region():
        k = RO_KINDS[kind]
        wkind = {"fs": "fs", "fs+meta": "fs+meta", "fs+cache:1": "fs", "fs-config-flag": "fs"}[k]
        sb = Sandbox(kinds=wkind)
        try:
            model = sm.Model()
            w = sb.storage()
            initial = [[], [("memoize", 0, "small", None), ("memoize", 2, "oversize", None), ("write_metadata", 0, b"log-1")],
                       [("memoize", 0, "none", None), ("memoize", 1, "small", "ko/key1"), ("memoize", 3, "small", None)],
                       [("memoize", 0, "small", None), ("memoize", 2, "oversize", None), ("memoize", 3, "small", None)]][pre]
            for op in initial:
                sm.apply_op(w, op)
                model.apply(op)
            debris = pre == 3
            if debris:
                # crash debris left by an earlier writer: one memento link truncated to nothing, another one dangling
                import glob

                meta_root = os.path.join(sb.root, "default-meta" if wkind == "fs+meta" else "default")
                links = sorted(glob.glob(os.path.join(meta_root, "**", "*.memento.json.link"), recursive=True))
                check("harness:two-memento-links-to-damage", len(links) >= 2, links)
                open(links[0], "w").close()
                target = open(links[1]).read().strip()
                os.unlink(target if os.path.isabs(target) else os.path.join(os.path.dirname(links[1]), target))
                cover("store-with-crash-debris")
            ro, roots = _open_readonly(sb, k)
            check("read-only-flag-set", ro.read_only is True, ro.read_only)
            for r in roots:
                os.makedirs(r, exist_ok=True)
            before = tree_digest(roots)

            def queries(tag):
                if not debris:
                    sm.check_queries(ro, model, tag)
                    return
                # with debris in the store the answers are C08's concern; here: whatever the queries answer, they do not write
                fahs = [f.fn_reference_with_arg_hash() for f in sm.FWAS]
                for thunk in (lambda: ro.get_mementos(fahs), lambda: [ro.get_memento(f) for f in fahs],
                              lambda: [ro.is_memoized(f.fn_reference, f.arg_hash) for f in sm.FWAS], lambda: ro.is_all_memoized(sm.FWAS),
                              lambda: ro.list_functions(), lambda: [ro.list_mementos(r) for r in sm.FNS],
                              lambda: [ro.read_result(mm) for mm in ro.get_mementos(fahs) if mm is not None],
                              lambda: [ro.read_metadata(f, "log") for f in fahs]):
                    try:
                        thunk()
                    except Exception:  # noqa
                        pass

            with MutationAudit(roots) as audit:
                queries("reopened:")
                check("reading-a-damaged-store-writes-nothing", audit.events == [] and tree_digest(roots) == before, audit.events[:4])
                cover("reads-still-work")
                for oi in [o0, o1, o2][:L]:
                    op = OPS[oi]
                    try:
                        sm.apply_op(ro, op)
                        raised = None
                    except Exception as e:  # noqa
                        raised = e
                    if op[0] == "memoize":
                        cover("silently-skipped")
                        check("memoize-silently-skipped", raised is None, repr(raised))
                    elif isinstance(raised, sm.NotApplicable):
                        pass  # no stored data object to attach to
                    else:
                        cover("rejected")
                        check("forget-and-metadata-writes-rejected", isinstance(raised, ValueError), (op, repr(raised)))
                    check("no-filesystem-mutation-event-under-the-store", audit.events == [], (op, audit.events[:4]))
                    check("tree-unchanged", tree_digest(roots) == before, op)
                    queries("")
                    check("queries-write-nothing", audit.events == [] and tree_digest(roots) == before, (op, audit.events[:4]))
        finally:
            sb.close()


SRC = (
    "@m.memento_function(version='1')\n"
    "def f(x):\n"
    "    _trace.append(x)\n"
    "    return x + 1\n"
)
FN_OPS = ["call-hit", "call-miss", "forget", "forget_all", "put_metadata", "memento", "list_mementos", "call_batch", "ignore_result-miss",
          "put_metadata-with-data"]


@obligation(
    "C19.function_level",
    covers=("miss-executes-but-writes-nothing", "hit"),
    split={"kind": [0, 2]},
    bounds="function-level sequences of L=3 operations out of %d (call hit, call miss, forget, forget_all, put_metadata with / without store_with_data, memento, "
           "list_mementos, call_batch, ignore_result miss) through the public API on a cluster whose pre-populated filesystem store is "
           "read-only: no mutation event, tree digest unchanged" % len(FN_OPS),
    variables="choice: o0, o1, o2",
    budget_s={"quick": 170, "thorough": 600},
    choice_vars=3,
)
def function_level(o0: int, o1: int, o2: int, kind: int):
    ops = [pick(o, len(FN_OPS)) for o in (o0, o1, o2)]
    with concrete_region():
        sb = Sandbox(kinds="fs")
        prog = Program("vpc19")
        try:
            prog.exec(SRC)
            f = prog.f
            f(1)
            f.put_metadata("log", b"x", 1)
            ro, roots = _open_readonly(sb, RO_KINDS[kind])
            sb.env.default_cluster.storage = ro
            before = tree_digest(roots)
            with MutationAudit(roots) as audit:
                for o in ops:
                    name = FN_OPS[o]
                    n0 = len(prog.trace)
                    try:
                        if name == "call-hit":
                            cover("hit")
                            check("hit-served", f(1) == 2 and len(prog.trace) == n0, None)
                        elif name == "call-miss":
                            cover("miss-executes-but-writes-nothing")
                            check("miss-computes", f(7) == 8 and len(prog.trace) == n0 + 1, None)
                            check("miss-not-memoized", f.memento(7) is None, None)
                        elif name == "forget":
                            f.forget(1)
                            check("forget-rejected", False, None)
                        elif name == "forget_all":
                            f.forget_all()
                            check("forget_all-rejected", False, None)
                        elif name == "put_metadata":
                            f.put_metadata("log", b"y", 1)
                            check("put_metadata-rejected", False, None)
                        elif name == "put_metadata-with-data":
                            f.put_metadata("log", b"z", 1, store_with_data=True)
                            check("put_metadata-rejected", False, None)
                        elif name == "memento":
                            check("memento-readable", f.memento(1) is not None, None)
                        elif name == "list_mementos":
                            check("list_mementos", len(f.list_mementos()) == 1, None)
                        elif name == "call_batch":
                            check("batch", f.call_batch([{"x": 1}, {"x": 9}]) == [2, 10], None)
                        else:
                            check("ignore_result-miss", f.ignore_result()(11) is None, None)
                    except ValueError as e:
                        check("only-mutators-are-rejected", name in ("forget", "forget_all", "put_metadata", "put_metadata-with-data"), (name, str(e)))
                    check("no-filesystem-mutation-event-under-the-store", audit.events == [], (name, audit.events[:4]))
                    check("tree-unchanged", tree_digest(roots) == before, name)
                    check("metadata-still-readable", f.get_metadata("log", args=(1,)) == b"x", None)
        finally:
            prog.close()
            sb.close()


@obligation(
    "C19.memory_readonly",
    covers=("rejected", "silently-skipped"),
    bounds="memory back-end made read-only (argument / config) after being populated: L=2 operations of the C05 alphabet never change what it answers",
    variables="choice: o0, o1, from_config",
    budget_s={"quick": 120, "thorough": 300},
    choice_vars=3,
)
def memory_readonly(o0: int, o1: int, from_config: bool):
    o0 = pick(o0, len(OPS))
    o1 = pick(o1, len(OPS))
    fc = True if from_config else False
    with concrete_region():
        sb = Sandbox(kinds="memory")
        try:
            be = MemoryStorageBackend(config={"readonly": False})
            model = sm.Model()
            for op in [("memoize", 0, "small", None), ("memoize", 2, "other", None), ("write_metadata", 0, b"log-1")]:
                sm.apply_op(be, op)
                model.apply(op)
            if fc:
                ro = MemoryStorageBackend(config={"readonly": True})
            else:
                ro = MemoryStorageBackend(read_only=True)
            ro.mementos, ro.result, ro.metadata = be.mementos, be.result, be.metadata
            check("flag", ro.read_only is True, None)
            for oi in (o0, o1):
                op = OPS[oi]
                try:
                    sm.apply_op(ro, op)
                    raised = None
                except Exception as e:  # noqa
                    raised = e
                if op[0] == "memoize":
                    cover("silently-skipped")
                    check("memoize-silently-skipped", raised is None, repr(raised))
                elif isinstance(raised, sm.NotApplicable):
                    pass
                else:
                    cover("rejected")
                    check("mutators-rejected", isinstance(raised, ValueError), (op, repr(raised)))
                sm.check_queries(ro, model, "")
        finally:
            sb.close()


@obligation(
    "C19.null",
    covers=("null-storage", "null-runner"),
    split={"which": ["storage", "runner"]},
    bounds="null storage: after any L=2 operations of the C05 alphabet nothing is reported as memoized and every call executes; null "
           "runner: no body executes for call / call_batch / force-free variants, RuntimeError instead (memoized or not)",
    variables="choice: o0, o1, o2 / call form",
    budget_s={"quick": 120, "thorough": 300},
    choice_vars=3,
)
def null(o0: int, o1: int, o2: int, which: str):
    if which == "storage":
        ops = [pick(o0, len(OPS)), pick(o1, len(OPS))]
        assume(o2 == 0)
    else:
        ops = [pick(o0, 4), pick(o1, 2)]
        assume(o2 == 0)
    with concrete_region():
        if which == "storage":
            cover("null-storage")
            sb = Sandbox(kinds="null")
            prog = Program("vpc19n")
            try:
                be = sb.storage()
                empty = sm.Model()
                for oi in ops:
                    try:
                        sm.apply_op(be, OPS[oi])
                    except sm.NotApplicable:
                        pass
                    empty.history.append(OPS[oi])
                    fahs = [f.fn_reference_with_arg_hash() for f in sm.FWAS]
                    check("null-storage-reports-no-memento", all(x is None for x in be.get_mementos(fahs)), None)
                    check("null-storage-never-memoized", not any(be.is_memoized(f.fn_reference, f.arg_hash) for f in sm.FWAS), None)
                    check("null-storage-is_all_memoized-false", not be.is_all_memoized(sm.FWAS[:1]), None)
                    check("null-storage-lists-nothing", not be.list_functions() and not (be.list_mementos(sm.FNS[0]) or []), None)
                prog.exec(SRC)
                prog.f(1)
                prog.f(1)
                check("every-call-executes-with-null-storage", len(prog.trace) == 2, len(prog.trace))
            finally:
                prog.close()
                sb.close()
        else:
            cover("null-runner")
            sb = Sandbox(kinds="memory", runner="null")
            prog = Program("vpc19n")
            try:
                prog.exec(SRC)
                f = prog.f
                form = ops[0] % 4
                premem = ops[1] % 2
                if premem:
                    # memoize through a local runner first
                    f.force_local()(1)
                n0 = len(prog.trace)
                try:
                    if form == 0:
                        f(1)
                    elif form == 1:
                        f.call_batch([{"x": 1}])
                    elif form == 2:
                        f.partial(1)()
                    else:
                        f.ignore_result()(1)
                    out = "returned"
                except RuntimeError:
                    out = "RuntimeError"
                check("null-runner-refuses-with-RuntimeError", out == "RuntimeError", (form, premem, out))
                check("null-runner-executes-no-body", len(prog.trace) == n0, list(prog.trace))
            finally:
                prog.close()
                sb.close()
