"""
C11 - the JSON metadata codec round-trips and keeps its cross-language wire format.
"""
import datetime
import json
from typing import Union

from twosigma.memento.metadata import InvocationMetadata, Memento, ResultType
from twosigma.memento.reference import FunctionReference, FunctionReferenceWithArguments
from twosigma.memento.resource import ResourceHandle
from twosigma.memento.serialization import MementoCodec
from twosigma.memento.types import VersionedDataSourceKey

from vp import fixtures as fx
from vp.engine import assume, check, cover, note, obligation, pick
from vp.memenv import concrete_region

Scalar = Union[None, bool, int, float, str]
ScalarNF = Union[None, bool, int, str]  # where the value is rendered to canonical JSON text: floats are catalogue-only
STUBS = ("InjectiveDigest replaces hashlib.sha256 inside twosigma.memento.reference (digest = pre-image; SHA-256 collision freedom assumed)",
         "SafeJson replaces json.dumps on str inside twosigma.memento.reference for strings over the escape-free alphabet {a b : _ space}")

TYPE_NAMES = {type(None): "null", bool: "boolean", int: "number", float: "number", str: "string"}


def is_plain_json(doc) -> bool:
    """The documented precondition of a standards-conforming JSON writer (json.dumps(allow_nan=False)):
    objects with string keys, arrays, strings, finite numbers, booleans, null."""
    if doc is None or isinstance(doc, (bool, str)):
        return True
    if isinstance(doc, int):
        return True
    if isinstance(doc, float):
        return doc == doc and doc != float("inf") and doc != float("-inf")
    if isinstance(doc, list):
        return all(is_plain_json(x) for x in doc)
    if isinstance(doc, dict):
        return all(isinstance(k, str) and is_plain_json(v) for k, v in doc.items())
    return False


def same(a, b) -> bool:
    """Equal in type and value (NaN equals NaN), recursively."""
    if type(a) is not type(b):
        return False
    if isinstance(a, float):
        return a == b or (a != a and b != b)
    if isinstance(a, list):
        return len(a) == len(b) and all(same(x, y) for x, y in zip(a, b))
    if isinstance(a, dict):
        return list(sorted(a.keys())) == list(sorted(b.keys())) and all(same(a[k], b[k]) for k in a)
    return a == b


def _bound_scalar(v, maxlen=2):
    if isinstance(v, str):
        assume(len(v) <= maxlen)


@obligation(
    "C11.arg_scalar",
    covers=("null", "boolean", "int", "float", "string", "non-finite-float"),
    bounds="v: Union[None,bool,int,float,str]; ints unbounded; strings of ANY characters, length <= 3; floats as modelled by CrossHair",
    variables="data: v",
    budget_s={"quick": 120, "thorough": 300},
    data_vars=1,
)
def arg_scalar(v: Scalar):
    _bound_scalar(v, 3)
    e = MementoCodec.encode_arg(v)
    check("typed-encoding-shape", isinstance(e, dict) and set(e.keys()) <= {"type", "value"} and "type" in e, e)
    if v is None:
        cover("null")
        check("type-name", e["type"] == "null", e)
    elif isinstance(v, bool):
        cover("boolean")
        check("type-name", e["type"] == "boolean" and e["value"] is v, e)
    elif isinstance(v, str):
        cover("string")
        check("type-name", e["type"] == "string" and e["value"] == v, e)
    elif isinstance(v, int):
        cover("int")
        check("type-name", e["type"] == "number" and e["value"] == v, e)
    else:
        cover("float")
        check("type-name", e["type"] == "number", e)
    d = MementoCodec.decode_arg(e)
    check("round-trip-type-and-value", same(d, v), (d, v))
    if isinstance(v, float) and not (v == v and v != float("inf") and v != float("-inf")):
        cover("non-finite-float")
    check("plain-json", is_plain_json(e), e)


SHAPES = ["[v]", "[v,w]", "{k:v}", "{k:[v,w]}", "[[v],{k:w}]", "{k:{k:v},j:w}", "[]", "{}"]


def _shape(i, v, w):
    s = SHAPES[i]
    if s == "[v]":
        return [v]
    if s == "[v,w]":
        return [v, w]
    if s == "{k:v}":
        return {"k": v}
    if s == "{k:[v,w]}":
        return {"k": [v, w]}
    if s == "[[v],{k:w}]":
        return [[v], {"k": w}]
    if s == "{k:{k:v},j:w}":
        return {"k": {"k": v}, "j": w}
    if s == "[]":
        return []
    return {}


def _safe(v):
    """strings restricted to the escape-free alphabet of the SafeJson stub"""
    import re

    if isinstance(v, str):
        assume(re.fullmatch("[ab:_ ]*", v) is not None)


def _small(v):
    """ints that get rendered into canonical JSON text are bounded (int -> decimal text is costly for the solver)"""
    if isinstance(v, int) and not isinstance(v, bool):
        assume(-20 <= v <= 20)


def _finite(v):
    if isinstance(v, float):
        assume(v == v and v != float("inf") and v != float("-inf"))


@obligation(
    "C11.arg_nested",
    covers=("list", "dict"),
    split={"shape": list(range(len(SHAPES)))},
    bounds="8 container shapes (nesting depth <= 2) over two symbolic scalars (finite floats; strings <= 2 chars)",
    variables="data: v, w; choice: shape",
    budget_s={"quick": 120, "thorough": 300},
    data_vars=2, choice_vars=1,
)
def arg_nested(v: Scalar, w: Scalar, shape: int):
    _bound_scalar(v)
    _bound_scalar(w)
    _finite(v)
    _finite(w)
    obj = _shape(shape, v, w)
    cover("list" if isinstance(obj, list) else "dict")
    e = MementoCodec.encode_arg(obj)
    check("type-name", e["type"] == ("list_result" if isinstance(obj, list) else "dictionary"), e["type"])
    check("plain-json", is_plain_json(e), e)
    d = MementoCodec.decode_arg(e)
    check("round-trip", same(d, obj), (d, obj))


@obligation(
    "C11.key",
    covers=("key-has-hash", "empty-version", "none"),
    bounds="content key: any characters, length <= 4 (incl. '#'); version: any characters except '#', length <= 3 (versions are UUIDs or empty)",
    variables="data: key, version; choice: is_none",
    budget_s={"quick": 120, "thorough": 300},
    data_vars=2,
)
def key(k: str, version: str, is_none: bool):
    if is_none:
        cover("none")
        check("none-encodes-to-none", MementoCodec.encode_versioned_data_source_key(None) is None, None)
        check("none-decodes-to-none", MementoCodec.decode_versioned_data_source_key(None) is None, None)
        return
    assume(len(k) <= 4)
    assume(len(version) <= 3)
    assume("#" not in version)
    if "#" in k:
        cover("key-has-hash")
    if len(version) == 0:
        cover("empty-version")
    enc = MementoCodec.encode_versioned_data_source_key(VersionedDataSourceKey(k, version))
    check("encoded-is-string", isinstance(enc, str), enc)
    dec = MementoCodec.decode_versioned_data_source_key(enc)
    check("key-round-trip", dec.key == k and dec.version == version, (enc, dec))


UTC = datetime.timezone.utc


def _tz(h, m=0):
    return datetime.timezone(datetime.timedelta(hours=h, minutes=m))


INSTANTS = [
    datetime.date(1, 1, 1), datetime.date(999, 12, 31), datetime.date(2020, 2, 29), datetime.date(9999, 12, 31),
    datetime.datetime(1, 1, 1, 0, 0, 0), datetime.datetime(2020, 1, 1, 0, 0, 0),
    datetime.datetime(2020, 1, 1, 12, 30, 15, 123456), datetime.datetime(2020, 1, 1, 12, 30, 15, 1),
    datetime.datetime(9999, 12, 31, 23, 59, 59, 999999),
    datetime.datetime(2020, 1, 1, 0, 0, 0, tzinfo=UTC), datetime.datetime(2020, 6, 1, 23, 59, 59, 5, tzinfo=UTC),
    datetime.datetime(2020, 1, 1, 0, 0, 0, tzinfo=_tz(5, 30)), datetime.datetime(2020, 1, 1, 0, 0, 0, tzinfo=_tz(-8)),
    datetime.datetime(2020, 1, 1, 0, 0, 0, 7, tzinfo=_tz(-3, -30)), datetime.datetime(999, 1, 1, 1, 1, 1, tzinfo=_tz(14)),
    datetime.datetime(2020, 1, 1, 0, 0, 0, tzinfo=_tz(0)),
]


@obligation(
    "C11.datetime",
    covers=("date", "naive", "utc", "offset", "microseconds"),
    bounds="catalogue of %d dates / datetimes (years 1, 999, 9999; midnight; microseconds; naive; UTC; +-hh:mm offsets) - instants are "
           "catalogue choices: isoformat / dateutil are C code" % len(INSTANTS),
    variables="choice: instant index",
    budget_s={"quick": 60, "thorough": 60},
    choice_vars=1,
)
def dt(i: int):
    v = INSTANTS[pick(i, len(INSTANTS))]
    with concrete_region():
        if not isinstance(v, datetime.datetime):
            cover("date")
        elif v.tzinfo is None:
            cover("naive")
        elif v.utcoffset() == datetime.timedelta(0):
            cover("utc")
        else:
            cover("offset")
        if isinstance(v, datetime.datetime) and v.microsecond:
            cover("microseconds")
        s = MementoCodec.encode_datetime(v)
        d = MementoCodec.decode_datetime(s)
        check("date-stays-date", type(d) is type(v), (s, d))
        check("same-instant", d == v, (s, d, v))
        if isinstance(v, datetime.datetime):
            check("same-awareness", (d.tzinfo is None) == (v.tzinfo is None), (s, d))
            if v.tzinfo is not None:
                check("same-offset", d.utcoffset() == v.utcoffset(), (s, d))
                if v.utcoffset() == datetime.timedelta(0):
                    check("utc-as-Z", s.endswith("Z"), s)
        e = MementoCodec.encode_arg(v)
        check("arg-type-name", e["type"] == ("timestamp" if isinstance(v, datetime.datetime) else "date"), e)
        d2 = MementoCodec.decode_arg(json.loads(json.dumps(e, allow_nan=False)))
        check("arg-round-trip-through-json", d2 == v and type(d2) is type(v), (e, d2))


def _refs_equal(a, b):
    return (a.qualified_name == b.qualified_name and same(list(a.partial_args), list(b.partial_args))
            and same(a.partial_kwargs, b.partial_kwargs) and a.parameter_names == b.parameter_names and a.external == b.external)


def _fwa_equal(a, b):
    return (_refs_equal(a.fn_reference, b.fn_reference) and same(list(a.args), list(b.args)) and same(a.kwargs, b.kwargs)
            and same(a.context_args, b.context_args))


@obligation(
    "C11.reference",
    covers=("partial-args", "partial-kwargs", "nested-reference", "context-args"),
    split={"form": [0, 1, 2, 3, 4]},
    bounds="function reference with partial args / kwargs and a nested function reference as argument; two symbolic scalars "
           "(None/bool/int |x|<=20/str <= 2 chars over the safe alphabet; floats: catalogue in C04.floats); InjectiveDigest makes arg_hash equality = canonical-JSON equality",
    variables="data: v, w; choice: form",
    stubs=STUBS,
    budget_s={"quick": 170, "thorough": 600},
    data_vars=2, choice_vars=1,
)
def reference(v: ScalarNF, w: Union[int, str], form: int):
    from vp.stubs import hashing_stubs

    _bound_scalar(v)
    _bound_scalar(w)
    _safe(v)
    _safe(w)
    _small(v)
    _small(w)
    with hashing_stubs():
        ref = fx.G2.fn_reference()  # g2(x, y, z=None)
        if form == 0:
            fwa = FunctionReferenceWithArguments(ref, (v,), {"y": w})
        elif form == 1:
            cover("partial-args")
            fwa = FunctionReferenceWithArguments(fx.G2.partial(v).fn_reference(), (), {"y": w})
        elif form == 2:
            cover("partial-kwargs")
            fwa = FunctionReferenceWithArguments(fx.G2.partial(y=w).fn_reference(), (v,), {})
        elif form == 3:
            cover("nested-reference")
            assume(w == 0)  # one data variable in this form: the canonical text of a nested reference is long
            fwa = FunctionReferenceWithArguments(ref, (fx.F.partial(v),), {"y": [w]})
        else:
            cover("context-args")
            fwa = FunctionReferenceWithArguments(ref, (v,), {}, context_args={"c": w})
        enc = MementoCodec.encode_fn_reference_with_args(fwa)
        check("field-names", set(enc.keys()) == {"fnReference", "args", "kwargs", "contextArgs"}
              and set(enc["fnReference"].keys()) == {"qualifiedName", "partialArgs", "partialKwargs", "parameterNames"}, enc)
        check("plain-json", is_plain_json(enc), enc)
        dec = MementoCodec.decode_fn_reference_with_args(enc)
        if form == 3:
            # a function-reference argument decodes to the function; compare by its reference
            a0, b0 = fwa.args[0].fn_reference(), dec.args[0].fn_reference()
            check("nested-reference-round-trip", _refs_equal(a0, b0), (a0, b0))
            check("kwargs-round-trip", same(dec.kwargs, fwa.kwargs), (dec.kwargs, fwa.kwargs))
        else:
            check("reference-round-trip", _fwa_equal(dec, fwa), (dec, fwa))
        check("arg-hash-recomputed-equal", dec.arg_hash == fwa.arg_hash, (dec.arg_hash, fwa.arg_hash))


RUNTIMES_US = [0, 1, 999999, 1000000, 1000001, 86400 * 10**6 + 1, 30 * 86400 * 10**6 + 123456, 59_999_999]
RUNTIMES = [datetime.timedelta(microseconds=u) for u in RUNTIMES_US]
T0 = datetime.datetime(2021, 3, 4, 5, 6, 7, 89, tzinfo=UTC)


@obligation(
    "C11.memento",
    covers=("invocations", "resources", "content-key", "null-content-key"),
    split={"ninv": [0, 1, 2]},
    bounds="whole memento: 0-2 invocations, 0-2 resource handles with a symbolic url (<= 2 chars, any characters), symbolic correlation id, "
           "content key 'c/k#1' (keys are covered by C11.key), one symbolic non-float scalar argument (ints |x|<=20, strings <= 2 chars over the safe alphabet) used in args, kwargs, context args and invocations; "
           "document compared field by field after decode",
    variables="data: a (scalar), url, cid (strings); choice: ninv, nres, has_key",
    stubs=STUBS,
    budget_s={"quick": 170, "thorough": 600},
    data_vars=5, choice_vars=5,
)
def memento(a: ScalarNF, url: str, cid: str, ninv: int, nres: int, has_key: bool):
    from vp.stubs import hashing_stubs

    _bound_scalar(a)
    _safe(a)
    _small(a)
    for s in (url, cid):
        assume(len(s) <= 2)
    with hashing_stubs():
        _memento(a, url, "7", cid, "c/k#1", ninv, nres, 3, 1, has_key)


@obligation(
    "C11.memento_fields",
    covers=("invocations", "resources", "content-key", "null-content-key", "json-text"),
    bounds="runtime catalogue (%d values incl. 1 us, 1 day + 1 us) x 5 result types x 3 concrete arguments; the realised document goes "
           "through the real json.dumps(allow_nan=False) / json.loads" % len(RUNTIMES_US),
    variables="choice: runtime index, result type index, argument index",
    budget_s={"quick": 120, "thorough": 300},
    choice_vars=3,
)
def memento_fields(rt: int, ty: int, ai: int):
    rt = pick(rt, len(RUNTIMES_US))
    ty = pick(ty, 5)
    a = [None, 1.5, "x\u00e9\n\"q"][pick(ai, 3)]
    with concrete_region():
        _memento(a, "file:///tmp/a b", "123", "cid_1", "c/abc#d", 2, 2, rt, ty, True, real_json=True)
        _memento(a, "u", "", "", "k", 0, 0, rt, ty, False, real_json=True)


def _memento(a, url, rver, cid, ck, ninv, nres, rt, ty, has_key, real_json=False):
    nres = pick(nres, 3)
    runtime = RUNTIMES[rt]
    types = [ResultType.null, ResultType.number, ResultType.exception, ResultType.partition, ResultType.array_float32]
    result_type = types[ty]
    ref = fx.G2.fn_reference()
    fwa = FunctionReferenceWithArguments(ref, (a,), {"y": [a]}, context_args={"c": a} if nres == 2 else None)
    invs = [FunctionReferenceWithArguments(fx.REF_F1, (a,), {}), FunctionReferenceWithArguments(fx.REF_FF1, (), {"x": a})][:ninv]
    if ninv:
        cover("invocations")
    res = [ResourceHandle("file", url, rver), ResourceHandle(url, "u2", "")][:nres]
    if nres:
        cover("resources")
    if has_key:
        cover("content-key")
        content_key = VersionedDataSourceKey(ck, "uuid-1")
    else:
        cover("null-content-key")
        content_key = None
    t = T0
    mem = Memento(time=t, invocation_metadata=InvocationMetadata(fwa, invs, res, runtime, result_type),
                  function_dependencies={ref, fx.REF_F1}, runner={"type": "local"}, correlation_id=cid, content_key=content_key)
    doc = MementoCodec.encode_memento(mem)
    check("top-level-field-names", set(doc.keys()) == {"time", "invocationMetadata", "functionDependencies", "runner",
                                                       "correlationId", "contentKey"}, sorted(doc.keys()))
    check("invocation-metadata-field-names", set(doc["invocationMetadata"].keys()) == {
        "fnReferenceWithArgs", "invocations", "resources", "runtimeSeconds", "resultType"}, sorted(doc["invocationMetadata"].keys()))
    check("plain-json", is_plain_json(doc), doc)
    if real_json:
        cover("json-text")
        doc = json.loads(json.dumps(doc, allow_nan=False))
    back = MementoCodec.decode_memento(doc)
    check("time", back.time == t, back.time)
    check("fn-reference-with-args", _fwa_equal(back.invocation_metadata.fn_reference_with_args, fwa), None)
    check("arg-hash", back.invocation_metadata.fn_reference_with_args.arg_hash == fwa.arg_hash, None)
    bi = back.invocation_metadata.invocations
    check("invocations", len(bi) == len(invs) and all(_fwa_equal(x, y) and x.arg_hash == y.arg_hash for x, y in zip(bi, invs)), bi)
    br = back.invocation_metadata.resources
    check("resources", len(br) == len(res) and all(x == y for x, y in zip(br, res)), br)
    check("runtime", back.invocation_metadata.runtime == runtime, (back.invocation_metadata.runtime, runtime))
    check("result-type", back.invocation_metadata.result_type is result_type, back.invocation_metadata.result_type)
    check("dependencies", {r.qualified_name for r in back.function_dependencies} == {ref.qualified_name, fx.REF_F1.qualified_name}, None)
    check("runner", back.runner == {"type": "local"}, back.runner)
    check("correlation-id", back.correlation_id == cid, back.correlation_id)
    if has_key:
        check("content-key", back.content_key == content_key, back.content_key)
    else:
        check("content-key", back.content_key is None, back.content_key)


# ------------------------------------------------------------------------------------------------
# decoding is a function of the document and of the CURRENT program - not of what was decoded earlier in the process
# ------------------------------------------------------------------------------------------------

EXPLICIT_VERSIONS = [None, "1", "a#b", "v::1", "x:y#z#", "#", "2024.1#3 é"]
REDECODE_CHANGES = ["edited", "re-versioned", "removed", "appears-later", "reference-names-another-cluster"]


@obligation(
    "C11.redecode",
    covers=tuple(REDECODE_CHANGES) + ("partial",),
    bounds="a function reference (bare or with partial arguments) is encoded, decoded, then the program changes (function edited: new "
           "automatic version; given another explicit version; removed; or the function did not exist at the first decode and is defined "
           "afterwards) and the SAME document is decoded again: each decode reflects the program as it is at that moment (bound to the "
           "live function iff name and version match, otherwise an external reference with the encoded name and version), and a "
           "re-encoding of either result is the original document",
    variables="choice: change kind, partial bit, version (automatic, or one of 6 explicit free-form versions incl. '#', ':' and '::' inside)",
    budget_s={"quick": 120, "thorough": 300},
    choice_vars=3,
)
def redecode(change: int, partial: bool, explicit: int):
    from vp.memenv import Program, Sandbox, concrete_region

    change = pick(change, len(REDECODE_CHANGES))
    pt = True if partial else False
    explicit = pick(explicit, len(EXPLICIT_VERSIONS))
    with concrete_region():
        ex = EXPLICIT_VERSIONS[explicit]
        name = REDECODE_CHANGES[change]
        cover(name)
        if pt:
            cover("partial")
        sb = Sandbox(kinds="memory")
        prog = Program("vpc11r")
        try:
            deco = "@m.memento_function(version=%r)\n" % ex if ex is not None else "@m.memento_function\n"
            prog.exec(deco + "def f(x, y=0):\n    return x + 1\n")
            f0 = prog.f
            ref0 = (f0.partial(5) if pt else f0).fn_reference()
            doc = MementoCodec.encode_fn_reference(ref0)
            text = json.dumps(doc)
            if name == "reference-names-another-cluster":
                # a stored reference to this function under ANOTHER cluster name (e.g. the function moved between clusters):
                # whatever it resolves to, its cluster is not silently replaced by the live function's
                other = dict(doc)
                parts = FunctionReference.parse_qualified_name(doc["qualifiedName"])
                assert ref0.cluster_name is None and not doc["qualifiedName"].startswith("::")
                other["qualifiedName"] = "elsewhere::" + doc["qualifiedName"]  # (the default cluster is written without a prefix)
                d1 = MementoCodec.decode_fn_reference(json.loads(json.dumps(other)))
                d2 = MementoCodec.decode_fn_reference(json.loads(json.dumps(other)))
                for d in (d1, d2):
                    check("cluster-of-the-stored-reference-is-kept", d.qualified_name == other["qualifiedName"] and d.cluster_name == "elsewhere",
                          (d.qualified_name, d.cluster_name))
                    check("re-encoding-gives-the-original-document", json.dumps(MementoCodec.encode_fn_reference(d), sort_keys=True)
                          == json.dumps(other, sort_keys=True), (MementoCodec.encode_fn_reference(d), other))
                return
            if name == "appears-later":
                # first decode while the function does not exist, second after it has been defined
                del prog.mod.__dict__["f"]
                d1 = MementoCodec.decode_fn_reference(json.loads(text))
                check("decoded-as-external-while-the-function-is-missing", d1.external and d1.qualified_name == ref0.qualified_name,
                      (d1.external, d1.qualified_name))
                prog.exec(deco + "def f(x, y=0):\n    return x + 1\n")
                d2 = MementoCodec.decode_fn_reference(json.loads(text))
                check("bound-to-the-live-function-once-it-exists", (not d2.external) and d2.memento_fn is not None
                      and d2.qualified_name == ref0.qualified_name, (d2.external, d2.qualified_name))
            else:
                d1 = MementoCodec.decode_fn_reference(json.loads(text))
                check("first-decode-is-bound-to-the-live-function", (not d1.external) and d1.qualified_name == ref0.qualified_name,
                      (d1.external, d1.qualified_name))
                if name == "edited":
                    prog.exec(("@m.memento_function(version='2')\n" if ex is not None else "@m.memento_function\n") + "def f(x, y=0):\n    return x + 2\n")
                elif name == "re-versioned":
                    prog.exec("@m.memento_function(version='other')\ndef f(x, y=0):\n    return x + 1\n")
                else:
                    del prog.mod.__dict__["f"]
                d2 = MementoCodec.decode_fn_reference(json.loads(text))
                check("second-decode-reflects-the-changed-program(external)", d2.external, (name, d2.external, d2.qualified_name))
                check("stale-reference-keeps-its-encoded-name-and-version", d2.qualified_name == ref0.qualified_name,
                      (d2.qualified_name, ref0.qualified_name))
            for d in (d1, d2):
                check("re-encoding-gives-the-original-document", json.dumps(MementoCodec.encode_fn_reference(d), sort_keys=True)
                      == json.dumps(doc, sort_keys=True), (MementoCodec.encode_fn_reference(d), doc))
                check("partial-arguments-kept", tuple(d.partial_args or ()) == tuple(ref0.partial_args or ()), (d.partial_args, ref0.partial_args))
        finally:
            prog.close()
            sb.close()


# ------------------------------------------------------------------------------------------------
# the document as it is WRITTEN: metadata files of the filesystem back-end, read by another back-end instance
# ------------------------------------------------------------------------------------------------

def _file_args():
    tz = datetime.timezone(datetime.timedelta(hours=5, minutes=30))
    return [
        ("ascii", "abc"), ("latin", "é"), ("non-bmp", "\U0001F600"), ("lone-surrogate", "a\ud800b"), ("surrogate-escape", "f\udcffile"),
        ("nul", "a\x00b"), ("line-separators", "a b c\x85"), ("quotes", "\"'\\"), ("control", "\x01\x1f\x7f"), ("empty", ""),
        ("nested", ["é", {"k\ud800": "v\U0001F600", "b": ["\xff", None, 1.5]}]),
        ("datetime-offset", datetime.datetime(2020, 1, 2, 3, 4, 5, 6, tzinfo=tz)), ("date", datetime.date(2020, 1, 2)),
        ("big-int", 2**70), ("float", 0.1), ("neg-zero", -0.0),
    ]


FILE_ARGS = _file_args()


@obligation(
    "C11.metadata_files",
    covers=("lone-surrogate", "read-by-another-instance", "plain-json-on-disk"),
    split={"store": ["fs", "fs+meta"]},
    bounds="a call whose argument (positional, keyword or context argument) is one of %d values - ASCII / Latin / non-BMP text, lone and "
           "escape surrogates (os.fsdecode file names), NUL, line separators, quotes and backslashes, control characters, a nested "
           "structure of these, a datetime with a +05:30 offset, a date, 2**70, 0.1, -0.0 - is memoized on the filesystem back-end (shared "
           "or separate metadata path); every metadata file written is plain JSON text (strict parser, no NaN tokens, UTF-8 decodable); "
           "a NEW back-end instance over the same directory finds the memento by its key, its recorded arguments equal the originals in "
           "type and value, the argument hash recomputed from the decoded arguments is the stored one, and the call is a hit" % len(FILE_ARGS),
    variables="choice: value index, where the value is passed, store",
    budget_s={"quick": 120, "thorough": 300},
    choice_vars=3,
)
def metadata_files(vi: int, where: int, store: str):
    import os

    from vp.memenv import Program, Sandbox, concrete_region, restart_sandbox

    vi = pick(vi, len(FILE_ARGS))
    where = pick(where, 3)
    with concrete_region():
        name, value = FILE_ARGS[vi]
        if "surrogate" in name:
            cover("lone-surrogate")
        sb = Sandbox(kinds=store)
        prog = Program("vpc11f")
        try:
            prog.exec("@m.memento_function(version='1')\ndef f(x, y=None):\n    _trace.append(1)\n    return 7\n")
            f = prog.f
            if where == 0:
                call = lambda fn: fn(value)  # noqa: E731
                handle = f
            elif where == 1:
                call = lambda fn: fn(1, y=value)  # noqa: E731
                handle = f
            else:
                call = lambda fn: fn(1)  # noqa: E731
                handle = f.with_context_args({"c": value})
            r = call(handle)
            check("first-call", r == 7 and len(prog.trace) == 1, (r, len(prog.trace)))
            mem0 = handle.memento(value) if where == 0 else handle.memento(1, y=value) if where == 1 else handle.memento(1)
            check("memento-written", mem0 is not None, name)
            fa0 = mem0.invocation_metadata.fn_reference_with_args
            # every file under the store that is a metadata document: strict JSON, UTF-8
            docs = 0
            for dirpath, _d, files in os.walk(sb.root):
                for fn_ in files:
                    if fn_.endswith(".json"):
                        raw = open(os.path.join(dirpath, fn_), "rb").read()
                        try:
                            text = raw.decode("utf-8")
                            doc = json.loads(text, parse_constant=lambda c: (_ for _ in ()).throw(ValueError("non-standard token " + c)))
                            ok = is_plain_json(doc)
                        except ValueError as e:
                            ok, doc = False, str(e)
                        docs += 1
                        check("metadata-file-is-plain-json-text", ok, (fn_, str(doc)[:200]))
            check("a-metadata-file-was-written", docs >= 1, docs)
            cover("plain-json-on-disk")
            # another back-end instance over the same directory
            restart_sandbox(sb, store)
            cover("read-by-another-instance")
            mem1 = handle.memento(value) if where == 0 else handle.memento(1, y=value) if where == 1 else handle.memento(1)
            check("found-by-another-instance", mem1 is not None, name)
            fa1 = mem1.invocation_metadata.fn_reference_with_args
            check("recorded-arguments-equal-in-type-and-value", _same_args(fa1, fa0), (name, repr(fa1.args), repr(fa1.kwargs), repr(fa1.context_args)))
            check("recorded-argument-hash-is-the-stored-key", fa1.arg_hash == fa0.arg_hash, (fa1.arg_hash, fa0.arg_hash))
            again = FunctionReferenceWithArguments(fa1.fn_reference, fa1.args, fa1.kwargs, context_args=fa1.context_args)
            check("argument-hash-recomputed-from-the-decoded-arguments", again.arg_hash == fa0.arg_hash, (again.arg_hash, fa0.arg_hash))
            r2 = call(handle)
            check("hit-through-another-instance", r2 == 7 and len(prog.trace) == 1, (r2, len(prog.trace)))
        finally:
            prog.close()
            sb.close()


def _typed_same(a, b):
    if isinstance(a, datetime.datetime) and isinstance(b, datetime.datetime):
        return a == b and a.utcoffset() == b.utcoffset()
    if isinstance(a, (list, tuple)) and isinstance(b, (list, tuple)):
        return len(a) == len(b) and all(_typed_same(x, y) for x, y in zip(a, b))
    if isinstance(a, dict) and isinstance(b, dict):
        return sorted(a) == sorted(b) and all(_typed_same(a[k], b[k]) for k in a)
    if isinstance(a, float) and isinstance(b, float):
        return repr(a) == repr(b)
    return type(a) is type(b) and a == b


def _same_args(x, y):
    return _typed_same(list(x.args), list(y.args)) and _typed_same(x.kwargs, y.kwargs) and _typed_same(x.context_args, y.context_args)
