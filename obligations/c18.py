"""
C18 - declarative configuration is honoured, ordered, and reproducible from its dump.

All effects are observed *behaviourally* (DESIGN.md 4/C18): a memento function bound to the cluster
under test is called and the fingerprint records which runner ran, which files appeared where on
tmpfs, whether a repeated read touched the disk (cache present, cache budget vs. result size) and
whether anything was written at all (read-only).  Attribute values are recorded for diagnostics
only.
"""
import json
import os
import shutil

import twosigma.memento as m
from twosigma.memento.configuration import ConfigurationRepository, Environment, FunctionCluster
from twosigma.memento.storage_base import MemoryCache
from twosigma.memento.storage_filesystem import FilesystemStorageBackend
from twosigma.memento.storage_memory import MemoryStorageBackend

from vp.engine import assume, check, cover, note, obligation, pick
from vp.memenv import Program, Sandbox, concrete_region, reset_memento_globals

MB = [None, 0.5, 1, 3]            # memory_cache_mb catalogue (0.5 MB < big result < 1 MB)
RO = [None, False, True]
RUNNER = [None, "local", "null"]
STYPE = ["filesystem", "memory", "null"]
SOURCES = ["cluster-config-dict", "environment-config-dict", "json-files", "yaml-jinja-file", "json-files-with-template-defaults"]

SRC = (
    "@m.memento_function(cluster='{c}', version='1')\n"
    "def f(x):\n"
    "    _trace.append(('f', x))\n"
    "    return x + 1\n"
    "@m.memento_function(cluster='{c}', version='1')\n"
    "def big():\n"
    "    _trace.append(('big',))\n"
    "    return b'x' * 700000\n"
)


class ReadAudit:
    """Counts file opens (any mode) under the given roots: 'did this read touch the disk?'."""

    _installed = False
    active = None

    def __init__(self, roots):
        self.roots = [os.path.realpath(r) for r in roots]
        self.n = 0
        if not ReadAudit._installed:
            import sys

            sys.addaudithook(ReadAudit._hook)
            ReadAudit._installed = True

    @staticmethod
    def _hook(event, args):
        self = ReadAudit.active
        if self is None or event != "open":
            return
        try:
            p = args[0]
            if isinstance(p, (str, bytes)):
                p = os.path.realpath(os.fsdecode(p))
                for r in self.roots:
                    if p == r or p.startswith(r + os.sep):
                        self.n += 1
        except Exception:  # noqa
            pass

    def __enter__(self):
        ReadAudit.active = self
        return self

    def __exit__(self, *a):
        ReadAudit.active = None


def _listing(root):
    out = []
    for d, dirs, files in os.walk(root):
        if d == root and "cfg" in dirs:
            dirs.remove("cfg")  # the configuration files of the harness itself
        dirs.sort()
        for f in sorted(files):
            rel = os.path.relpath(os.path.join(d, f), root).split("/")
            # object versions are fresh uuids: not part of the behaviour being compared
            rel = ["<uuid>" if i and rel[i - 1] == ".versions" else x for i, x in enumerate(rel)]
            out.append("/".join(rel))
    return sorted(out)


def _wipe(root, keep=()):
    for n in os.listdir(root):
        if n in keep:
            continue
        p = os.path.join(root, n)
        if os.path.isdir(p):
            shutil.rmtree(p)
        else:
            os.unlink(p)


def fingerprint(env, cluster_name, root, tag):
    """Behavioural fingerprint of cluster `cluster_name` of `env`. Files are created under `root`
    only (all configured paths are below it); they are listed and then wiped."""
    prev = m.Environment.get()
    m.Environment.set(env)
    reset_memento_globals()
    prog = Program("vpc18" + tag)
    fp = {}
    try:
        cl = env.get_cluster(cluster_name)
        fp["storage_type(attr)"] = cl.storage.storage_type
        prog.exec(SRC.format(c=cluster_name))
        f, big = prog.f, prog.big
        try:
            r = f(1)
            fp["runner"] = "local" if (r == 2 and list(prog.trace) == [("f", 1)]) else "odd:%r/%r" % (r, list(prog.trace))
        except RuntimeError as e:
            fp["runner"] = "null" if not list(prog.trace) else "odd-raise:%s" % e
        if fp["runner"] == "local":
            big()
            fp["files"] = _listing(root)
            fp["written"] = bool(fp["files"])
            fp["memoized"] = f.memento(1) is not None
            n0 = len(prog.trace)
            with ReadAudit([root]) as ra:
                f(1)
                fp["small-reread-touches-disk"] = ra.n > 0
            with ReadAudit([root]) as ra:
                got = big()
                fp["big-reread-touches-disk"] = ra.n > 0
            fp["reread-executes-bodies"] = len(prog.trace) - n0
            try:
                f.forget(1)
                fp["forget"] = "ok"
            except ValueError:
                fp["forget"] = "rejected"
        else:
            fp["files"] = _listing(root)
    finally:
        prog.close()
        m.Environment.set(prev)
        reset_memento_globals()
        _wipe(root, keep=("cfg",))
    return fp


def _storage_cfg(root, tag, stype, meta, mbi, roi, templ=False):
    """Declarative storage configuration for the option combination (None = option absent)."""
    c = {"type": STYPE[stype]}
    if STYPE[stype] == "filesystem":
        c["path"] = ("{{root}}" if templ else root) + "/data-" + tag
        if meta:
            c["metadata_path"] = ("{{root}}" if templ else root) + "/meta-" + tag
        if MB[mbi] is not None:
            c["memory_cache_mb"] = MB[mbi]
    if RO[roi] is not None and STYPE[stype] != "null":
        c["readonly"] = RO[roi]
    return c


def _storage_by_args(root, tag, stype, meta, mbi, roi):
    """The same option combination through constructor arguments only."""
    if STYPE[stype] == "filesystem":
        return FilesystemStorageBackend(
            path=root + "/data-" + tag, metadata_path=(root + "/meta-" + tag) if meta else None,
            memory_cache_mb=MB[mbi], read_only=RO[roi])
    if STYPE[stype] == "memory":
        return MemoryStorageBackend(read_only=RO[roi])
    return m.StorageBackend.create("null", {})


def _runner_by_args(ri):
    return m.RunnerBackend.create(RUNNER[ri] or "local", {})


def _cluster_cfg(root, name, stype, meta, mbi, roi, ri, templ=False):
    c = {"name": name, "storage": _storage_cfg(root, name, stype, meta, mbi, roi, templ)}
    if RUNNER[ri] is not None:
        c["runner"] = {"type": RUNNER[ri]}
    return c


def _env_from_source(src, root, ccfg_fn):
    """Build an Environment with one repository defining cluster 'c1' from the given kind of source."""
    cfgdir = os.path.join(root, "cfg")
    os.makedirs(cfgdir, exist_ok=True)
    name = SOURCES[src]
    if name == "cluster-config-dict":
        cl = FunctionCluster(ccfg_fn(False))
        return Environment(name="e", base_dir=root, repos=[ConfigurationRepository(name="r", clusters={"c1": cl})])
    if name == "environment-config-dict":
        return Environment({"name": "e", "base_dir": root, "repos": [{"name": "r", "clusters": {"c1": ccfg_fn(False)}}]})
    if name == "json-files-with-template-defaults":
        # files that are jinja templates relying on DEFAULTS ({{ root | default(...) }}), loaded without any parameter through the
        # environment -> repository -> cluster chain
        os.makedirs(os.path.join(cfgdir, "sub"), exist_ok=True)
        text = json.dumps(ccfg_fn(True)).replace("{{root}}", "{{ root | default(%s) }}" % json.dumps(root)[1:-1].join(["'", "'"]))
        with open(os.path.join(cfgdir, "sub", "c1.json"), "w") as fh:
            fh.write(text)
        with open(os.path.join(cfgdir, "repo.json"), "w") as fh:
            json.dump({"name": "r", "clusters": {"c1": "sub/c1.json"}}, fh)
        with open(os.path.join(cfgdir, "env.json"), "w") as fh:
            json.dump({"name": "e", "repos": ["repo.json"]}, fh)
        env = Environment.from_file(os.path.join(cfgdir, "env.json"))
        env.base_dir = root
        return env
    if name == "json-files":
        # environment file -> repository file (relative path) -> cluster file (relative path)
        os.makedirs(os.path.join(cfgdir, "sub"), exist_ok=True)
        with open(os.path.join(cfgdir, "sub", "c1.json"), "w") as fh:
            json.dump(ccfg_fn(False), fh)
        with open(os.path.join(cfgdir, "repo.json"), "w") as fh:
            json.dump({"name": "r", "clusters": {"c1": "sub/c1.json"}}, fh)
        with open(os.path.join(cfgdir, "env.json"), "w") as fh:
            json.dump({"name": "e", "repos": ["repo.json"]}, fh)
        env = Environment.from_file(os.path.join(cfgdir, "env.json"))
        env.base_dir = root  # where the default cluster would live; not under test here
        return env
    # YAML repository file that is a jinja template with a parameter for the root directory
    import yaml

    with open(os.path.join(cfgdir, "repo.yaml"), "w") as fh:
        yaml.safe_dump({"name": "r", "clusters": {"c1": ccfg_fn(True)}}, fh)
    repo = ConfigurationRepository.from_file(os.path.join(cfgdir, "repo.yaml"), root=root)
    return Environment(name="e", base_dir=root, repos=[repo])


def _env_by_args(root, stype, meta, mbi, roi, ri):
    cl = FunctionCluster(name="c1", storage=_storage_by_args(root, "c1", stype, meta, mbi, roi), runner=_runner_by_args(ri))
    return Environment(name="e", base_dir=root, repos=[ConfigurationRepository(name="r", clusters={"c1": cl})])


def _expect(fp, stype, meta, mbi, roi, ri, label):
    """Independent spec of the fingerprint (so that a defect shared by both construction routes is still seen)."""
    runner = RUNNER[ri] or "local"
    check(label + "runner-type-honoured", fp["runner"] == runner, (fp["runner"], runner))
    if runner != "local":
        check(label + "null-runner-writes-nothing", fp["files"] == [], fp["files"])
        return
    st = STYPE[stype]
    ro = bool(RO[roi]) and st != "null"
    if st == "filesystem":
        if ro:
            check(label + "readonly-honoured", not fp["written"] and not fp["memoized"], fp)
        else:
            tops = sorted({p.split("/")[0] for p in fp["files"]})
            want = ["data-c1", "meta-c1"] if meta else ["data-c1"]
            check(label + "path/metadata_path-honoured", tops == want, (tops, want))
            if meta:
                memento_files = [p for p in fp["files"] if p.startswith("data-c1") and "memento" in p]
                check(label + "metadata-lands-under-metadata_path", memento_files == [], memento_files[:3])
            mb = MB[mbi]
            check(label + "memory_cache_mb-honoured(cache-exists)", fp["small-reread-touches-disk"] == (mb is None), (mb, fp))
            check(label + "memory_cache_mb-honoured(budget)", fp["big-reread-touches-disk"] == (mb is None or mb < 0.7), (mb, fp))
            check(label + "reread-is-memoized", fp["reread-executes-bodies"] == 0, fp)
            check(label + "writable-store-forgets", fp["forget"] == "ok", fp)
    elif st == "memory":
        check(label + "memory-storage-writes-no-files", fp["files"] == [], fp["files"])
        check(label + "readonly-honoured", fp["memoized"] == (not ro), fp)
        check(label + "forget-follows-readonly", fp["forget"] == ("rejected" if ro else "ok"), fp)
    else:
        check(label + "null-storage-stores-nothing", fp["files"] == [] and not fp["memoized"], fp)


@obligation(
    "C18.options",
    covers=("filesystem", "memory", "null-storage", "metadata_path", "cache", "readonly", "null-runner"),
    split={"src": [0, 1, 2, 3, 4], "ri": [0, 1, 2]},
    bounds="full matrix: storage type {filesystem, memory, null} x metadata_path {absent, given} x memory_cache_mb {absent, 0.5, 1, 3} x "
           "readonly {absent, false, true} x runner {absent, local, null} x source {FunctionCluster(config dict), Environment(config dict), "
           "env.json -> repo.json -> cluster json by relative paths, YAML repository file with a jinja parameter, JSON files that are templates relying on jinja defaults and loaded without parameters}; the directory name substituted contains '&', '<', '>' and blanks; effect observed "
           "behaviourally (files on tmpfs, disk reads on repeated calls of a small and a 700 kB result, forget) and compared with the "
           "same options given as constructor arguments and with an independent expectation",
    variables="choice: stype, meta, mbi, roi (src, ri partitioned)",
    budget_s={"quick": 170, "thorough": 600},
    choice_vars=6,
)
def options(src: int, stype: int, meta: bool, mbi: int, roi: int, ri: int):
    stype = pick(stype, 3)
    mbi = pick(mbi, 4)
    roi = pick(roi, 3)
    meta = True if meta else False
    if STYPE[stype] != "filesystem":
        assume(not meta and mbi == 0)
    if STYPE[stype] == "null":
        assume(roi == 0)
    with concrete_region():
        cover({"filesystem": "filesystem", "memory": "memory", "null": "null-storage"}[STYPE[stype]])
        if meta:
            cover("metadata_path")
        if mbi:
            cover("cache")
        if roi == 2:
            cover("readonly")
        if ri == 2:
            cover("null-runner")
        sb = Sandbox()
        try:
            # the directory substituted into the templates has characters an HTML-minded template engine would rewrite
            root = os.path.join(sb.root, "R&D <x> y")
            os.makedirs(root)
            env_cfg = _env_from_source(src, root, lambda templ: _cluster_cfg(root, "c1", stype, meta, mbi, roi, ri, templ))
            fp_cfg = fingerprint(env_cfg, "c1", root, "a")
            env_arg = _env_by_args(root, stype, meta, mbi, roi, ri)
            fp_arg = fingerprint(env_arg, "c1", root, "a")
            note({"cfg": {k: v for k, v in fp_cfg.items() if k != "files"}})
            _expect(fp_arg, stype, meta, mbi, roi, ri, "args:")
            _expect(fp_cfg, stype, meta, mbi, roi, ri, "config:")
            check("configuration-has-the-effect-of-the-equivalent-arguments", fp_cfg == fp_arg,
                  lambda: {k: (fp_cfg.get(k), fp_arg.get(k)) for k in set(fp_cfg) | set(fp_arg) if fp_cfg.get(k) != fp_arg.get(k)})
        finally:
            sb.close()


OVERRIDES = ["path", "metadata_path", "memory_cache_mb", "memory_cache_mb=0", "read_only=True", "read_only=False",
             "memory:read_only=True", "memory:read_only=False", "cluster:storage", "cluster:runner", "cluster:name",
             "repo:clusters", "env:repos", "cluster:storage(filesystem-backend-without-the-configured-options)"]


@obligation(
    "C18.override",
    covers=tuple(OVERRIDES) + ("same-config-object-reused",),
    split={"which": list(range(len(OVERRIDES)))},
    bounds="for every option: configuration says X, the explicit constructor argument says Y != X (X drawn from the option's catalogue, the "
           "other options from theirs); the behaviour is that of Y alone; the caller's configuration object is not modified, and a second backend "
           "built from the same object without arguments follows the configuration",
    variables="choice: which (partitioned), mbi, roi, meta",
    budget_s={"quick": 120, "thorough": 400},
    choice_vars=4,
)
def override(which: int, meta: bool, mbi: int, roi: int):
    mbi = pick(mbi, 4)
    roi = pick(roi, 3)
    meta = True if meta else False
    w = OVERRIDES[which]
    cover(w)
    with concrete_region():
        sb = Sandbox()
        try:
            root = sb.root
            base = _storage_cfg(root, "cfg", 0, meta, mbi, roi)  # what the configuration says (paths .../data-cfg, meta-cfg)

            def env_of(storage=None, cluster=None, repo=None, runner=None):
                cl = cluster or FunctionCluster(name="c1", storage=storage, runner=runner)
                rp = repo or ConfigurationRepository(name="r", clusters={"c1": cl})
                return Environment(name="e", base_dir=root, repos=[rp])

            exp = {"stype": 0, "meta": meta, "mbi": mbi, "roi": roi, "ri": 0, "data": "data-cfg", "meta_dir": "meta-cfg"}
            import copy as _copy

            pristine = _copy.deepcopy(base)
            shared = base  # the caller's configuration object itself (not a copy) goes to the constructor under test
            if w == "path":
                st = FilesystemStorageBackend(shared, path=root + "/data-arg")
                exp["data"] = "data-arg"
                if not meta:
                    exp["meta_dir"] = None
                env = env_of(st)
            elif w == "metadata_path":
                st = FilesystemStorageBackend(shared, metadata_path=root + "/meta-arg")
                exp["meta"], exp["meta_dir"] = True, "meta-arg"
                env = env_of(st)
            elif w == "memory_cache_mb":
                arg = 1 if MB[mbi] != 1 else 0.5
                st = FilesystemStorageBackend(shared, memory_cache_mb=arg)
                exp["mbi"] = MB.index(arg)
                env = env_of(st)
            elif w == "memory_cache_mb=0":
                st = FilesystemStorageBackend(shared, memory_cache_mb=0)
                exp["mbi"] = 0
                env = env_of(st)
            elif w in ("read_only=True", "read_only=False"):
                arg = w.endswith("True")
                st = FilesystemStorageBackend(shared, read_only=arg)
                exp["roi"] = RO.index(arg)
                env = env_of(st)
            elif w in ("memory:read_only=True", "memory:read_only=False"):
                arg = w.endswith("True")
                cfg = {"type": "memory"}
                if RO[roi] is not None:
                    cfg["readonly"] = RO[roi]
                st = MemoryStorageBackend(cfg, read_only=arg)
                exp.update(stype=1, meta=False, mbi=0, roi=RO.index(arg))
                env = env_of(st)
            elif w == "cluster:storage":
                ccfg = {"name": "c1", "storage": dict(base), "runner": {"type": "local"}}
                cl = FunctionCluster(ccfg, storage=MemoryStorageBackend())
                exp.update(stype=1, meta=False, mbi=0, roi=0)
                env = env_of(cluster=cl)
            elif w == "cluster:storage(filesystem-backend-without-the-configured-options)":
                # the configured storage section has a metadata path / a cache / a read-only flag; the backend given as an argument
                # is a plain filesystem backend elsewhere: none of the configured options may leak into behaviour or dump
                ccfg = {"name": "c1", "storage": dict(base), "runner": {"type": "null"}}
                cl = FunctionCluster(ccfg, storage=FilesystemStorageBackend(path=root + "/data-arg"), runner=m.RunnerBackend.create("local", {}))
                exp.update(stype=0, meta=False, mbi=0, roi=0, data="data-arg", meta_dir=None)
                env = env_of(cluster=cl)
            elif w == "cluster:runner":
                ccfg = {"name": "c1", "storage": dict(base), "runner": {"type": "local"}}
                cl = FunctionCluster(ccfg, runner=m.RunnerBackend.create("null", {}))
                exp["ri"] = 2
                env = env_of(cluster=cl)
            elif w == "cluster:name":
                ccfg = {"name": "from-config", "storage": dict(base)}
                cl = FunctionCluster(ccfg, name="c1")
                check("name-argument-overrides-config", cl.name == "c1", cl.name)
                env = env_of(cluster=cl)
            elif w == "repo:clusters":
                other = {"name": "c1", "storage": {"type": "filesystem", "path": root + "/data-wrong"}}
                cl = FunctionCluster({"name": "c1", "storage": dict(base)})
                rp = ConfigurationRepository({"name": "r", "clusters": {"c1": other}}, clusters={"c1": cl})
                env = env_of(repo=rp)
            else:  # env:repos
                other = {"name": "c1", "storage": {"type": "filesystem", "path": root + "/data-wrong"}}
                cl = FunctionCluster({"name": "c1", "storage": dict(base)})
                rp = ConfigurationRepository(name="r2", clusters={"c1": cl})
                env = Environment({"name": "e", "base_dir": root, "repos": [{"name": "r", "clusters": {"c1": other}}]}, repos=[rp])
                check("repos-argument-overrides-config", [r.name for r in env.repos] == ["r2"], [r.name for r in env.repos])
            # an explicit argument overrides the configuration for THIS object only: the caller's configuration is left as it was,
            # and another backend built from the same configuration object without arguments follows the configuration
            check("constructor-leaves-the-caller's-configuration-untouched", base == pristine, (base, pristine))
            if which < 6:
                cover("same-config-object-reused")
                env_b = env_of(FilesystemStorageBackend(shared))
                fp_b = fingerprint(env_b, "c1", root, "o2")
                ren_b = {"data-cfg": "data-c1", "meta-cfg": "meta-c1"}
                fp_b["files"] = sorted("/".join([ren_b.get(p.split("/")[0], "UNEXPECTED:" + p.split("/")[0])] + p.split("/")[1:])
                                       for p in fp_b["files"])
                _expect(fp_b, 0, meta, mbi, roi, 0, "second-backend-from-the-same-config-object:")
            # the dump of an environment built from configuration PLUS overriding arguments describes the effective settings
            env_r = Environment(json.loads(json.dumps(env.to_dict())))
            fp_r = fingerprint(env_r, "c1", root, "o")
            fp = fingerprint(env, "c1", root, "o")
            check("dump-of-an-overridden-backend-rebuilds-the-same-behaviour", fp_r == fp,
                  lambda: {k: (fp_r.get(k), fp.get(k)) for k in set(fp) | set(fp_r) if fp_r.get(k) != fp.get(k)})
            # rename the directories so that the shared expectation applies
            ren = {exp["data"]: "data-c1"}
            if exp["meta"] and exp["meta_dir"]:
                ren[exp["meta_dir"]] = "meta-c1"
            fp["files"] = sorted("/".join([ren.get(p.split("/")[0], "UNEXPECTED:" + p.split("/")[0])] + p.split("/")[1:]) for p in fp["files"])
            note({k: v for k, v in fp.items() if k != "files"})
            _expect(fp, exp["stype"], exp["meta"], exp["mbi"], exp["roi"], exp["ri"], "arg-over-config(%s):" % w)
        finally:
            sb.close()


@obligation(
    "C18.priority",
    covers=("first-of-several", "nowhere", "shadowed-lower-priority", "built-by-prepend/append"),
    split={"mode": [0, 1, 2]},
    bounds="1-3 repositories; each defines cluster 'c1' and/or 'c2' or neither (symbolic bits); environment built from a config dict, from "
           "the repos argument, or by append_repo / prepend_repo in either order; get_cluster(name) is the cluster object of the first "
           "defining repository in priority order, else None; a function bound to the name stores under that repository's path",
    variables="choice: n, a0..a2, b0..b2 (bits), mode (partitioned)",
    budget_s={"quick": 170, "thorough": 400},
    choice_vars=8,
)
def priority(n: int, a0: bool, a1: bool, a2: bool, b0: bool, b1: bool, b2: bool, mode: int):
    n = pick(n, 3) + 1
    A = [True if x else False for x in (a0, a1, a2)][:n]
    B = [True if x else False for x in (b0, b1, b2)][:n]
    for x in (a0, a1, a2, b0, b1, b2)[n:3] + (b0, b1, b2)[n:]:
        assume(not x)
    with concrete_region():
        sb = Sandbox()
        try:
            root = sb.root
            cfgs = []
            for i in range(n):
                cl = {}
                if A[i]:
                    cl["c1"] = {"name": "c1", "storage": {"type": "filesystem", "path": "%s/r%d-c1" % (root, i)}}
                if B[i]:
                    cl["c2"] = {"name": "c2", "storage": {"type": "filesystem", "path": "%s/r%d-c2" % (root, i)}}
                cfgs.append({"name": "r%d" % i, "clusters": cl})
            if mode == 0:
                env = Environment({"name": "e", "base_dir": root, "repos": cfgs})
            elif mode == 1:
                env = Environment(name="e", base_dir=root, repos=[ConfigurationRepository(c) for c in cfgs])
            else:
                cover("built-by-prepend/append")
                # middle-out: start with the last, prepend the earlier ones in reverse, or start with first and append
                env = Environment(name="e", base_dir=root)
                repos = [ConfigurationRepository(c) for c in cfgs]
                if n >= 2:
                    env.append_repo(repos[1])
                    env.prepend_repo(repos[0])
                    for r in repos[2:]:
                        env.append_repo(r)
                else:
                    env.prepend_repo(repos[0])
            check("repository-order-kept", [r.name for r in env.repos] == ["r%d" % i for i in range(n)], [r.name for r in env.repos])
            for nm, bits in (("c1", A), ("c2", B)):
                first = next((i for i in range(n) if bits[i]), None)
                got = env.get_cluster(nm)
                if first is None:
                    cover("nowhere")
                    check("undefined-cluster-resolves-to-nothing", got is None, repr(got))
                    continue
                if sum(bits) > 1:
                    cover("first-of-several")
                if first > 0:
                    cover("shadowed-lower-priority")
                check("cluster-resolves-to-first-defining-repository", got is env.repos[first].clusters[nm], (nm, first))
                fp = fingerprint(env, nm, root, nm)
                tops = sorted({p.split("/")[0] for p in fp["files"]})
                check("function-stores-in-first-defining-repository", tops == ["r%d-%s" % (first, nm)], (tops, first))
            check("no-name-is-the-default-cluster", env.get_cluster(None) is env.default_cluster, None)
            check("unknown-name-resolves-to-nothing", env.get_cluster("zz") is None, None)
        finally:
            sb.close()


@obligation(
    "C18.dump",
    covers=("filesystem", "memory", "null-storage", "metadata_path", "cache", "readonly", "null-runner"),
    split={"ri": [0, 1, 2], "via_json": [False, True]},
    bounds="environment with two repositories; cluster c1 ranges over the full option matrix of C18.options, cluster c2 (second repository) "
           "is a fixed memory cluster, descriptive fields set; d = env.to_dict() is plain JSON data; Environment(d) (directly, or after "
           "json.dumps/loads) has clusters with the same behavioural fingerprint; to_dict is a fixpoint",
    variables="choice: stype, meta, mbi, roi (ri, via_json partitioned)",
    budget_s={"quick": 170, "thorough": 600},
    choice_vars=6,
)
def dump(stype: int, meta: bool, mbi: int, roi: int, ri: int, via_json: bool):
    stype = pick(stype, 3)
    mbi = pick(mbi, 4)
    roi = pick(roi, 3)
    meta = True if meta else False
    if STYPE[stype] != "filesystem":
        assume(not meta and mbi == 0)
    if STYPE[stype] == "null":
        assume(roi == 0)
    with concrete_region():
        cover({"filesystem": "filesystem", "memory": "memory", "null": "null-storage"}[STYPE[stype]])
        if meta:
            cover("metadata_path")
        if mbi:
            cover("cache")
        if roi == 2:
            cover("readonly")
        if ri == 2:
            cover("null-runner")
        sb = Sandbox()
        try:
            root = sb.root
            c1 = FunctionCluster(name="c1", description="d1", maintainer="m1", documentation="doc1",
                                 storage=_storage_by_args(root, "c1", stype, meta, mbi, roi), runner=_runner_by_args(ri))
            c2 = FunctionCluster({"name": "c2", "storage": {"type": "memory", "readonly": True}})
            env = Environment(name="e", base_dir=root, repos=[
                ConfigurationRepository(name="r0", description="rd", maintainer="rm", documentation="rdoc", modules=["vpfix"],
                                        clusters={"c1": c1}),
                ConfigurationRepository(name="r1", base_dir=root, clusters={"c2": c2, "c1": FunctionCluster(
                    {"name": "c1", "storage": {"type": "memory"}})}),
            ])
            d = env.to_dict()
            try:
                text = json.dumps(d, allow_nan=False)
            except (TypeError, ValueError) as e:
                check("dump-is-plain-json-data", False, str(e))
            d2 = json.loads(text) if via_json else d
            env2 = Environment(d2)
            check("dump-fixpoint", env2.to_dict() == d, lambda: (env2.to_dict(), d))
            check("names-and-order-kept", (env2.name, env2.base_dir, [r.name for r in env2.repos]) == ("e", root, ["r0", "r1"]), None)
            r0 = env2.repos[0]
            check("descriptive-fields-kept", (r0.description, r0.maintainer, r0.documentation, r0.modules) == ("rd", "rm", "rdoc", ["vpfix"])
                  and (r0.clusters["c1"].description, r0.clusters["c1"].maintainer, r0.clusters["c1"].documentation) == ("d1", "m1", "doc1"), None)
            fp1 = fingerprint(env, "c1", root, "d")
            fp2 = fingerprint(env2, "c1", root, "d")
            _expect(fp1, stype, meta, mbi, roi, ri, "original:")
            _expect(fp2, stype, meta, mbi, roi, ri, "rebuilt:")
            check("rebuilt-cluster-behaves-like-the-original", fp1 == fp2,
                  lambda: {k: (fp1.get(k), fp2.get(k)) for k in set(fp1) | set(fp2) if fp1.get(k) != fp2.get(k)})
            g1 = fingerprint(env, "c2", root, "e")
            g2 = fingerprint(env2, "c2", root, "e")
            check("second-repository-cluster-behaves-like-the-original", g1 == g2 and g2["forget"] == "rejected", (g1, g2))
        finally:
            sb.close()


# ------------------------------------------------------------------------------------------------
# data-variable obligation: the cache budget arithmetic from configuration
# ------------------------------------------------------------------------------------------------


class _Sized:
    pass


@obligation(
    "C18.cache_budget",
    covers=("from-config", "argument-overrides", "no-cache", "fits", "does-not-fit"),
    bounds="memory_cache_mb given in the configuration (cfg_mb) and/or as argument (arg_mb), each absent or an unbounded non-negative int; "
           "one result of unbounded symbolic size s: cache exists iff effective mb > 0, its byte budget is mb * 2^20, and the result is "
           "resident after a put iff s <= budget",
    variables="data: cfg_mb, arg_mb, s (ints); choice: has_cfg, has_arg",
    stubs=("SizeOracle replaces MemoryCache._estimate_object_size",),
    budget_s={"quick": 120, "thorough": 300},
    data_vars=3, choice_vars=2,
)
def cache_budget(has_cfg: bool, cfg_mb: int, has_arg: bool, arg_mb: int, s: int):
    from vp import fixtures as fx

    assume(cfg_mb >= 0 and arg_mb >= 0 and s >= 0)
    cfg = {"path": "/dev/shm/vp-c18-never-written"}
    if has_cfg:
        cfg["memory_cache_mb"] = cfg_mb
    st = FilesystemStorageBackend(cfg, memory_cache_mb=arg_mb if has_arg else None)
    if has_arg:
        cover("argument-overrides")
        eff = arg_mb
    elif has_cfg:
        cover("from-config")
        eff = cfg_mb
    else:
        eff = 0
    cache = st._memory_cache
    if eff == 0:
        cover("no-cache")
        check("no-cache-without-a-positive-budget", cache is None, None)
        return
    check("cache-exists-when-configured", cache is not None, {"has_cfg": has_cfg, "has_arg": has_arg})
    check("byte-budget-is-mb*2^20", cache.memory_cache_bytes == eff * 1048576, None)
    val = _Sized()
    orig = MemoryCache._estimate_object_size
    MemoryCache._estimate_object_size = staticmethod(lambda obj: s)
    try:
        cache.put(fx.MEMENTOS4[0], val, True)
    finally:
        MemoryCache._estimate_object_size = orig
    resident = fx.CACHE_KEYS4[0] in cache.cache
    if s <= eff * 1048576:
        cover("fits")
        check("result-within-budget-is-cached", resident, None)
    else:
        cover("does-not-fit")
        check("result-over-budget-is-not-cached", not resident, None)


REPO_DEFS = [("r0", ["c1"]), ("r1", ["c1", "c2"]), ("r2", ["c2"])]


@obligation(
    "C18.repo_history",
    covers=("defined-after-a-miss", "shadowed-after-a-hit", "queried-between-changes"),
    split={"o0": list(range(6))},
    bounds="an initially empty environment changed by every sequence of 3 operations out of {append_repo, prepend_repo} x 3 repositories "
           "(defining c1 / c1+c2 / c2), with get_cluster(c1 / c2 / unknown / None) queried after every operation or only at the end: the "
           "answer is always the first defining repository in the current priority order, else None",
    variables="choice: o0 (partitioned), o1, o2, quiet bit",
    budget_s={"quick": 120, "thorough": 300},
    choice_vars=4,
)
def repo_history(o0: int, o1: int, o2: int, quiet: bool):
    o1 = pick(o1, 6)
    o2 = pick(o2, 6)
    q = True if quiet else False
    with concrete_region():
        sb = Sandbox()
        try:
            root = sb.root
            env = Environment(name="e", base_dir=root)
            order = []  # model: repository objects in priority order

            def query(tag):
                for nm in ("c1", "c2"):
                    first = next((r for r in order if nm in r.clusters), None)
                    got = env.get_cluster(nm)
                    check(tag + "cluster-resolves-to-first-defining-repository-or-nothing",
                          got is (first.clusters[nm] if first is not None else None), (nm, [r.name for r in order], repr(got)))
                check(tag + "unknown-name-resolves-to-nothing", env.get_cluster("zz") is None, None)
                check(tag + "no-name-is-the-default-cluster", env.get_cluster(None) is env.default_cluster, None)

            query("empty:")
            prev = {nm: None for nm in ("c1", "c2")}
            for step, o in enumerate((o0, o1, o2)):
                name, cls = REPO_DEFS[o % 3]
                repo = ConfigurationRepository({"name": "%s-%d" % (name, step), "clusters": {
                    c: {"name": c, "storage": {"type": "filesystem", "path": "%s/%s-%d-%s" % (root, name, step, c)}} for c in cls}})
                before = {nm: next((r for r in order if nm in r.clusters), None) for nm in ("c1", "c2")}
                if o < 3:
                    env.append_repo(repo)
                    order.append(repo)
                else:
                    env.prepend_repo(repo)
                    order.insert(0, repo)
                after = {nm: next((r for r in order if nm in r.clusters), None) for nm in ("c1", "c2")}
                for nm in ("c1", "c2"):
                    if before[nm] is None and after[nm] is not None:
                        cover("defined-after-a-miss")
                    if before[nm] is not None and after[nm] is not before[nm]:
                        cover("shadowed-after-a-hit")
                if not q or step == 2:
                    if step < 2:
                        cover("queried-between-changes")
                    query("step%d:" % step)
            # and a function bound to the name lands in that repository's store
            for nm in ("c1", "c2"):
                first = next((r for r in order if nm in r.clusters), None)
                if first is not None:
                    fp = fingerprint(env, nm, root, nm)
                    tops = sorted({p.split("/")[0] for p in fp["files"]})
                    want = [first.clusters[nm].storage.config_path.split("/")[-1]]
                    check("function-stores-in-first-defining-repository", tops == want, (tops, want))
        finally:
            sb.close()
