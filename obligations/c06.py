"""
C06 - the memory cache is bounded, LRU, and keeps honest accounts.

One inductive step of the real MemoryCache from an arbitrary state satisfying the representation
invariant I, with unbounded symbolic sizes and budget (DESIGN.md 4/C06).
"""
import itertools
from collections import deque

from twosigma.memento.reference import FunctionReferenceWithArgHash
from twosigma.memento.storage_base import MemoryCache, _CacheEntry

from vp import fixtures as fx
from vp.engine import assume, check, cover, obligation, pick

FACT = [1, 1, 2, 6, 24]


class SizeOracle:
    """Replaces MemoryCache._estimate_object_size: arbitrary non-negative int per object."""

    def __init__(self):
        self.sizes = {}
        self.keep = []

    def set(self, obj, size):
        self.sizes[id(obj)] = size
        self.keep.append(obj)

    def __call__(self, obj):
        return self.sizes[id(obj)]


def build_cache(K, resident, has_value, sizes, order, budget, refbits, oracle):
    """A MemoryCache in an arbitrary state; returns (cache, pre) where pre describes the state."""
    calls = fx.CALLS4[:K]
    keys = fx.CACHE_KEYS4[:K]
    cache = MemoryCache.__new__(MemoryCache)
    cache.__dict__.update(MemoryCache(1).__dict__)  # whatever else the constructor sets up (e.g. its lock)
    cache.memory_cache_bytes = budget
    cache.memory_usage = 0
    cache.lru_deque = deque()
    cache.cache = dict()
    from weakref import WeakValueDictionary

    cache.refs = WeakValueDictionary()
    mementos = fx.MEMENTOS4[:K]
    values = [fx.Val("old%d" % i) for i in range(K)]
    refvals = [fx.Val("ref%d" % i) for i in range(K)]
    res = []
    for i in range(K):
        r = True if resident[i] else False
        res.append(r)
    live = [i for i in range(K) if res[i]]
    nperm = FACT[len(live)]
    perm = list(itertools.permutations(live))[pick(order, nperm)]
    lru = list(perm)
    usage = 0
    for i in range(K):
        if res[i]:
            # has_value stays symbolic: only code that inspects it forks on it
            cache.cache[keys[i]] = _CacheEntry(sizes[i], mementos[i], values[i], has_value[i])
            usage = usage + sizes[i]
        if refbits[i]:
            # a live weak reference to a value seen earlier
            cache.refs[keys[i]] = refvals[i]
    for i in lru:
        cache.lru_deque.append(keys[i])
    cache.memory_usage = usage
    pre = {
        "K": K, "keys": keys, "calls": calls, "mementos": mementos, "values": values, "refvals": refvals,
        "resident": res, "lru": [keys[i] for i in lru], "usage": usage,
        "entries": {keys[i]: cache.cache[keys[i]] for i in range(K) if res[i]},
        "keep": (values, refvals, mementos),
    }
    return cache, pre


def check_invariant(cache, tag=""):
    total = 0
    for k, e in cache.cache.items():
        total = total + e.obj_size
    check(tag + "usage==sum(resident sizes)", cache.memory_usage == total, (cache.memory_usage, total))
    check(tag + "usage<=budget", cache.memory_usage <= cache.memory_cache_bytes, (cache.memory_usage, cache.memory_cache_bytes))
    dq = list(cache.lru_deque)
    check(tag + "deque-has-no-duplicates", len(dq) == len(set(dq)), dq)
    check(tag + "deque==resident-set", set(dq) == set(cache.cache.keys()), (dq, sorted(cache.cache.keys())))


def _common(K, r, h, s, order, budget, w):
    for x in s:
        assume(x >= 0)
    assume(budget >= 0)
    oracle = SizeOracle()
    cache, pre = build_cache(K, r, h, s, order, budget, w, oracle)
    assume(pre["usage"] <= budget)  # representation invariant I on the pre-state
    return cache, pre, oracle


def _others_unchanged(cache, pre, except_keys, tag):
    for k, e in pre["entries"].items():
        if k in except_keys:
            continue
        if k in cache.cache:
            check(tag + "other-entry-untouched", cache.cache[k] is e, k)


def _step_put(K, r, h, s, order, budget, wt, target, newsize, has_result, frame=False, newsize2=0):
    w = [(wt if i == target else False) for i in range(K)]
    cache, pre, oracle = _common(K, r, h, s, order, budget, w)
    assume(newsize >= 0)
    t = target
    key = pre["keys"][t]
    memento = fx.NEW_MEMENTOS4[t]
    newval = fx.Val("new") if has_result else None
    hr = True if has_result else False
    orig = MemoryCache._estimate_object_size
    oracle.sizes[id(newval)] = newsize
    estimator = oracle
    if frame and has_result:
        # a DataFrame result (the cache copies it): its size ESTIMATE is sampled, so two estimates of the same frame may differ -
        # successive estimates are newsize, then newsize2 (both arbitrary); whatever the cache attributes must be consistent
        import pandas as pd

        cover("dataframe-result")
        newval = pd.DataFrame({"a": [1, 2]})
        answers = [newsize, newsize2]

        def estimator(obj, _o=oracle, _a=answers):
            if isinstance(obj, pd.DataFrame):
                return _a.pop(0) if len(_a) > 1 else _a[0]
            return _o(obj)
    MemoryCache._estimate_object_size = staticmethod(estimator)
    try:
        cache.put(memento, newval, hr)
    finally:
        MemoryCache._estimate_object_size = orig
    check_invariant(cache)
    old_others = [k for k in pre["lru"] if k != key]
    if frame and has_result:
        # with a frame only the accounting invariant, residency of what fits and the weak reference are checked
        e = cache.cache.get(key)
        if e is not None:
            check("resident-frame-is-attributed-at-most-the-budget", e.obj_size <= budget, (e.obj_size, budget))
            check("resident-frame-equals-the-result", e.value.equals(newval), None)
        elif newsize <= budget:
            check("fitting-frame-is-resident", False, (newsize, budget))
        return
    if newsize > budget:
        cover("oversize")
        # an oversize result is never resident - and neither is a stale predecessor
        if key in cache.cache:
            e = cache.cache[key]
            check("oversize-not-resident/no-stale-predecessor", False,
                  {"resident_value": repr(e.value), "new": repr(newval)})
        survivors = [k for k in cache.lru_deque]
        check("oversize-put-evicts-nothing-else", survivors == old_others, (survivors, old_others))
    else:
        if newsize == budget:
            cover("exact-fit")
        check("fitting-put-is-resident", key in cache.cache, key)
        e = cache.cache[key]
        check("resident-entry-is-the-new-one", e.value is newval and e.has_value == hr and e.obj_size == newsize and e.memento is memento,
              repr(e.value))
        dq = list(cache.lru_deque)
        check("put-key-most-recent", dq[-1] == key, dq)
        survivors = dq[:-1]
        # survivors are a suffix of the old recency order (least recently used dropped first)
        n = len(survivors)
        check("survivors-are-most-recent-suffix", survivors == old_others[len(old_others) - n:], (survivors, old_others))
        evicted = old_others[: len(old_others) - n]
        if evicted:
            cover("evicted>=1")
            youngest = evicted[-1]
            sz = pre["entries"][youngest].obj_size
            check("eviction-is-minimal", cache.memory_usage + sz > budget, (cache.memory_usage, sz, budget))
        if len(evicted) >= 2:
            cover("evicted>=2")
    _others_unchanged(cache, pre, {key}, "put:")
    if hr:
        # the weak-ref table must not serve something older than what was just put
        got = cache.refs.get(key)
        check("ref-is-new-value", got is None or got is newval, repr(got))


@obligation(
    "C06.step_put",
    covers=("oversize", "exact-fit", "evicted>=1", "evicted>=2"),
    split={"target": [0, 1, 2]},
    bounds="K=3 keys (f#1/h1, f#1/h2, f#10/h1); sizes, new size and budget unbounded non-negative ints; all 6 LRU orders; "
           "all resident/has-value/weak-ref bit vectors",
    variables="data: s0..s2,newsize,budget (ints); choice: r*,h*,w* (bools), order (perm index), has_result",
    stubs=("SizeOracle replaces MemoryCache._estimate_object_size (arbitrary non-negative size per object)",),
    budget_s={"quick": 170, "thorough": 900},
    data_vars=5, choice_vars=11,
)
def step_put(r0: bool, r1: bool, r2: bool, h0: bool, h1: bool, h2: bool, s0: int, s1: int, s2: int,
             order: int, budget: int, wt: bool, target: int, newsize: int, has_result: bool):
    _step_put(3, [r0, r1, r2], [h0, h1, h2], [s0, s1, s2], order, budget, wt, target, newsize, has_result)


@obligation(
    "C06.step_put_frame",
    covers=("dataframe-result",),
    split={"target": [0, 1, 2]},
    bounds="as C06.step_put with a pandas DataFrame result (copied by the cache) whose size ESTIMATES are arbitrary and may differ from "
           "one estimate to the next (the real estimator samples rows): accounting invariant, no resident entry attributed more than "
           "the budget, a frame whose first estimate fits is resident",
    variables="data: s0..s2, newsize, newsize2, budget; choice: r*, order",
    stubs=("SizeOracle with two successive answers for the frame",),
    budget_s={"quick": 170, "thorough": 600},
    data_vars=6, choice_vars=4,
)
def step_put_frame(r0: bool, r1: bool, r2: bool, s0: int, s1: int, s2: int, order: int, budget: int, target: int, newsize: int,
                   newsize2: int):
    assume(newsize2 >= 0)
    _step_put(3, [r0, r1, r2], [r0, r1, r2], [s0, s1, s2], order, budget, False, target, newsize, True, frame=True, newsize2=newsize2)


def _snapshot(cache):
    return (dict(cache.cache), list(cache.lru_deque), cache.memory_usage, dict(cache.refs))


def _step_read(K, r, h, s, order, budget, wt, target, op):
    w = [(wt if i == target else False) for i in range(K)]
    cache, pre, oracle = _common(K, r, h, s, order, budget, w)
    t = target
    key = pre["keys"][t]
    ref, x = pre["calls"][t]
    memento = pre["mementos"][t]
    before = _snapshot(cache)
    resident = pre["resident"][t]
    if op == "read_result":
        try:
            got = cache.read_result(memento)
            raised = False
        except KeyError:
            raised = True
            got = None
        if resident and h[t]:
            cover("served-from-cache")
            check("resident-value-served", (not raised) and got is pre["values"][t], repr(got))
            check("read-marks-used", list(cache.lru_deque)[-1] == key, list(cache.lru_deque))
        elif resident:
            cover("memento-only-entry")
            check("memento-only-entry-raises-KeyError", raised, repr(got))
        elif w[t]:
            cover("served-from-weakref")
            check("weakref-served", (not raised) and got is pre["refvals"][t], repr(got))
        else:
            check("absent-raises-KeyError", raised, repr(got))
    elif op == "is_memoized":
        got = cache.is_memoized(ref, fx.HASHES4[t])
        expect = bool(resident or w[t])
        check("is_memoized-answer", bool(got) == expect, (got, expect))
        if resident:
            cover("served-from-cache")
            check("is_memoized-marks-used", list(cache.lru_deque)[-1] == key, list(cache.lru_deque))
    elif op == "get_mementos":
        fns = [FunctionReferenceWithArgHash(pre["calls"][i][0], fx.HASHES4[i]) for i in range(K)]
        got = cache.get_mementos(fns)
        for i in range(K):
            if pre["resident"][i]:
                cover("served-from-cache")
                check("get_mementos-resident", got[i] is pre["mementos"][i], i)
            else:
                check("get_mementos-absent-is-None", got[i] is None, i)
    check_invariant(cache)
    after = _snapshot(cache)
    # reads never change residency, accounting or entries; only recency of the target may change
    check("read-keeps-resident-set", before[0] == after[0], None)
    check("read-keeps-usage", before[2] == after[2], (before[2], after[2]))
    b = [k for k in before[1] if k != key]
    a = [k for k in after[1] if k != key]
    check("read-keeps-relative-order-of-others", a == b, (before[1], after[1]))


@obligation(
    "C06.step_read",
    covers=("served-from-cache", "memento-only-entry", "served-from-weakref"),
    split={"target": [0, 1, 2], "op": ["read_result", "is_memoized", "get_mementos"]},
    bounds="K=3 keys; sizes and budget unbounded non-negative ints; all LRU orders and bit vectors",
    variables="data: s0..s2,budget; choice: r*,h*,w*,order",
    stubs=("SizeOracle",),
    budget_s={"quick": 170, "thorough": 600},
)
def step_read(r0: bool, r1: bool, r2: bool, h0: bool, h1: bool, h2: bool, s0: int, s1: int, s2: int,
              order: int, budget: int, wt: bool, target: int, op: str):
    _step_read(3, [r0, r1, r2], [h0, h1, h2], [s0, s1, s2], order, budget, wt, target, op)


def _step_forget(K, r, h, s, order, budget, w, op, target):
    cache, pre, oracle = _common(K, r, h, s, order, budget, w)
    keys = pre["keys"]
    if op == "forget_call":
        ref, x = pre["calls"][target]
        cache.forget_call(FunctionReferenceWithArgHash(ref, fx.HASHES4[target]))
        scope = {keys[target]}
    elif op == "forget_function":
        ref = pre["calls"][target][0]
        cache.forget_function(ref)
        scope = {keys[i] for i in range(K) if pre["calls"][i][0].qualified_name == ref.qualified_name}
        if len(scope) < K:
            cover("prefix-named-function-survives")
    else:
        cache.forget_everything()
        scope = set(keys)
    check_invariant(cache)
    for k in scope:
        check("forgotten-not-resident", k not in cache.cache, k)
        check("forgotten-not-in-refs", k not in cache.refs, k)
    for i in range(K):
        k = keys[i]
        if k in scope:
            continue
        if pre["resident"][i]:
            cover("out-of-scope-resident")
            check("out-of-scope-entry-kept", cache.cache.get(k) is pre["entries"][k], k)
        else:
            check("out-of-scope-absent-stays-absent", k not in cache.cache, k)
        if w[i]:
            check("out-of-scope-ref-kept", k in cache.refs, k)
    rest = [k for k in pre["lru"] if k not in scope]
    check("recency-of-survivors-kept", list(cache.lru_deque) == rest, (list(cache.lru_deque), rest))
    if len(scope) == K:
        cover("everything-forgotten")
        check("usage-returns-to-zero", cache.memory_usage == 0, cache.memory_usage)


@obligation(
    "C06.step_forget",
    covers=("prefix-named-function-survives", "out-of-scope-resident", "everything-forgotten"),
    split={"op": ["forget_call", "forget_function", "forget_everything"], "target": [0, 1, 2]},
    bounds="K=3 keys incl. f#1 vs f#10 (prefix); sizes and budget unbounded non-negative ints",
    variables="data: s0..s2,budget; choice: r*,h*,w*,order",
    stubs=("SizeOracle",),
    budget_s={"quick": 170, "thorough": 600},
)
def step_forget(r0: bool, r1: bool, r2: bool, h0: bool, h1: bool, h2: bool, s0: int, s1: int, s2: int,
                order: int, budget: int, w0: bool, w1: bool, w2: bool, op: str, target: int):
    _step_forget(3, [r0, r1, r2], [h0, h1, h2], [s0, s1, s2], order, budget, [w0, w1, w2], op, target)


# ---- K = 4 (thorough): adds ff#1 (function name with f as a prefix)

@obligation(
    "C06.step_put_K4",
    covers=("oversize", "exact-fit", "evicted>=1", "evicted>=2"),
    split={"target": [0, 1, 2, 3], "r0": [False, True], "r1": [False, True]},
    tiers=("thorough",),
    bounds="K=4 keys (adds ff#1/h1); sizes/budget unbounded; all 24 LRU orders",
    variables="data: s0..s3,newsize,budget; choice: r*,h*,w*,order,has_result",
    stubs=("SizeOracle",),
    budget_s={"thorough": 1500},
)
def step_put_k4(r0: bool, r1: bool, r2: bool, r3: bool, h0: bool, h1: bool, h2: bool, h3: bool,
                s0: int, s1: int, s2: int, s3: int, order: int, budget: int,
                target: int, newsize: int, has_result: bool):
    _step_put(4, [r0, r1, r2, r3], [h0, h1, h2, h3], [s0, s1, s2, s3], order, budget, False, target, newsize, has_result)


@obligation(
    "C06.step_forget_K4",
    covers=("prefix-named-function-survives", "out-of-scope-resident", "everything-forgotten"),
    split={"op": ["forget_call", "forget_function", "forget_everything"], "target": [0, 1, 2, 3]},
    tiers=("thorough",),
    bounds="K=4 keys; sizes/budget unbounded",
    stubs=("SizeOracle",),
    budget_s={"thorough": 900},
)
def step_forget_k4(r0: bool, r1: bool, r2: bool, r3: bool, h0: bool, h1: bool, h2: bool, h3: bool,
                   s0: int, s1: int, s2: int, s3: int, order: int, budget: int,
                   w0: bool, w1: bool, w2: bool, w3: bool, op: str, target: int):
    _step_forget(4, [r0, r1, r2, r3], [h0, h1, h2, h3], [s0, s1, s2, s3], order, budget, [w0, w1, w2, w3], op, target)
