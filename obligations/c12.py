"""
C12 - whatever was stored stays listable and readable as names and code evolve.

parse / build round trips on symbolic strings (data variables, z3 strings through CrossHair's
symbolic regex interpreter), plus function-level find-again / evolution scenarios (choice variables).
"""
import re

from twosigma.memento.reference import FunctionReference

from vp import fixtures as fx
from vp.engine import assume, check, cover, note, obligation, pick

ALPHA = "a1._-+=:#@"
ALPHA_RE = r"[a1._\-+=:#@]"
NAME_RE = r"[a1._\-+=@]"  # the same alphabet without ':' and '#'


def _bounded(s, n, rx):
    assume(len(s) <= n)
    assume(re.fullmatch(rx + "*", s) is not None)


@obligation(
    "C12.parse",
    covers=("version-has-colon", "version-has-hash", "with-cluster", "no-version", "empty-version"),
    split={"has_cluster": [False, True], "lm": [1, 2], "lf": [1, 2]},
    tier_split={"quick": {"lv": [-1, 0, 1, 2, 3]}, "thorough": {"lv": [-1, 0, 1, 2, 3, 4]}},
    bounds="cluster, module, function: strings of length <= 2 over {a 1 . _ - + = @} (module, function non-empty; no ':' '#': "
           "with them the textual format is not uniquely decodable by any parser, DESIGN.md section 5); version: length <= MAXV over "
           "{a 1 . _ - + = : # @}; MAXV = 3 quick, 4 thorough",
    variables="data: cluster, module, function, version (z3 strings)",
    budget_s={"quick": 170, "thorough": 1500},
    data_vars=4,
)
def parse(cluster: str, module: str, function: str, version: str, has_cluster: bool, lm: int, lf: int, lv: int):
    # lm, lf, lv: the lengths, fixed per job (partition of the space; lv = -1 means "no version")
    has_version = lv >= 0
    maxv = lv
    _bounded(module, 2, NAME_RE)
    _bounded(function, 2, NAME_RE)
    assume(len(module) == lm)
    assume(len(function) == lf)
    q = module + ":" + function
    if has_cluster:
        _bounded(cluster, 2, NAME_RE)
        assume(len(cluster) >= 1)
        q = cluster + "::" + q
        cover("with-cluster")
    if has_version:
        _bounded(version, maxv, ALPHA_RE)
        assume(len(version) == lv)
        q = q + "#" + version
        if ":" in version:
            cover("version-has-colon")
        if "#" in version:
            cover("version-has-hash")
        if len(version) == 0:
            cover("empty-version")
    else:
        cover("no-version")
    parts = FunctionReference.parse_qualified_name(q)
    check("cluster-part", parts["cluster"] == (cluster if has_cluster else None), (q, parts))
    check("module-part", parts["module"] == module, (q, parts))
    check("function-part", parts["function"] == function, (q, parts))
    check("version-part", parts["version"] == (version if has_version else None), (q, parts))


@obligation(
    "C12.build_parse",
    covers=("version-has-colon", "version-has-hash", "version-has-double-colon", "named-cluster"),
    split={"kind": ["local", "external"], "lc": [0, 1, 2]},
    tier_split={"quick": {"lv": [0, 1, 2, 3]}, "thorough": {"lv": [0, 1, 2, 3, 4]}},
    bounds="real FunctionReference construction for a local memento function (module vpfix, function f) and for an external "
           "(unbound) reference; cluster length <= 2 over the name alphabet, version length <= MAXV over the full alphabet",
    variables="data: cluster, version (z3 strings)",
    budget_s={"quick": 170, "thorough": 1500},
    data_vars=2,
)
def build_parse(cluster: str, version: str, kind: str, lc: int, lv: int):
    # lc, lv: lengths fixed per job (partition); lc = 0 means "default cluster"
    has_cluster = lc > 0
    _bounded(version, lv, ALPHA_RE)
    assume(len(version) == lv)
    if has_cluster:
        _bounded(cluster, 2, NAME_RE)
        assume(len(cluster) == lc)
        cover("named-cluster")
        cl = cluster
    else:
        cl = None
    if ":" in version:
        cover("version-has-colon")
    if "::" in version:
        cover("version-has-double-colon")
    if "#" in version:
        cover("version-has-hash")
    if kind == "local":
        if has_cluster:
            # a local function belongs to the cluster it was declared in; build the reference the
            # way MementoFunction._update_fn_reference does for a function of that cluster
            mf = fx.F_IN_CLUSTER(cl)
            ref = FunctionReference(mf, cluster_name=cl, version=version)
        else:
            ref = FunctionReference(fx.F, cluster_name=None, version=version)
        module, function = fx.MOD_NAME, "f"
    else:
        from twosigma.memento.external import UnboundExternalMementoFunction

        if not has_cluster:
            # external references always carry a cluster name (asserted by the constructor)
            assume(False)
        module, function = "a.b", "g"
        ref = UnboundExternalMementoFunction(
            cluster_name=cl, module_name=module, function_name=function, version=version,
            parameter_names=[],
        ).fn_reference()
    q = ref.qualified_name
    note(q)
    expect = (cl + "::" if cl is not None else "") + module + ":" + function + "#" + version
    check("qualified-name-format", q == expect, (q, expect))
    check("without-cluster", ref.qualified_name_without_cluster == module + ":" + function + "#" + version,
          ref.qualified_name_without_cluster)
    check("without-version", ref.qualified_name_without_version == (cl + "::" if cl is not None else "") + module + ":" + function,
          ref.qualified_name_without_version)
    parts = FunctionReference.parse_qualified_name(q)
    check("cluster-part", parts["cluster"] == cl, (q, parts))
    check("module-part", parts["module"] == module, (q, parts))
    check("function-part", parts["function"] == function, (q, parts))
    check("version-part", parts["version"] == version, (q, parts))


# ------------------------------------------------------------------------------------------------
# function-level: find again / evolution (choice variables; catalogue of version strings)
# ------------------------------------------------------------------------------------------------
from twosigma.memento import list_memoized_functions  # noqa: E402

from vp.memenv import Program, Sandbox, concrete_region  # noqa: E402

VERSIONS = ["1", "10", "a:b", "a#b", "#", ":", "::x", "x::y#z", "a@b=c+d-e_f.g", "v.link", "1.memento.json"]
STORES = ["memory", "fs", "fs+meta", "fs+cache:1"]


_MODULE_SERIAL = [0]


def _fresh_module_name():
    """A module name never used before in this worker process: process-global state that a change under test may add (caches keyed by
    module / function / version) then cannot leak from one explored path into the next - a leak would make a counterexample
    irreproducible in a fresh interpreter, i.e. a harness error instead of a finding. Within one path such state is exercised on
    purpose (entries are read before the program changes)."""
    _MODULE_SERIAL[0] += 1
    return "vpprog%d" % _MODULE_SERIAL[0]


def _decor(version, cluster):
    args = ["version=%r" % version]
    if cluster:
        args.append("cluster=%r" % cluster)
    return "@m.memento_function(%s)" % ", ".join(args)


@obligation(
    "C12.find_again",
    covers=("named-cluster", "default-cluster", "fs", "memory"),
    split={"store": [0, 1, 2, 3]},
    bounds="explicit version from a catalogue of %d strings (incl. ':' '#' '::' and file-suffix look-alikes) x {default, named cluster} "
           "x {memory, fs, fs+separate metadata path, fs+cache}; a second function with version '1' vs '10' is stored alongside" % len(VERSIONS),
    variables="choice: version index, cluster bit, store",
    budget_s={"quick": 120, "thorough": 300},
    choice_vars=3,
)
def find_again(vi: int, named: bool, store: int):
    version = VERSIONS[pick(vi, len(VERSIONS))]
    cluster = "cl" if named else None
    kind = STORES[store]
    cover("named-cluster" if named else "default-cluster")
    cover("memory" if kind == "memory" else "fs")
    with concrete_region():
        sb = Sandbox(kinds=kind, clusters={"cl": kind})
        prog = Program(_fresh_module_name())
        try:
            prog.exec(
                _decor(version, cluster) + "\ndef f(x):\n    _trace.append(('f', x))\n    return x + 1\n\n"
                + _decor("1" if version != "1" else "10", cluster) + "\ndef g(x):\n    _trace.append(('g', x))\n    return x + 2\n"
            )
            f, g = prog.f, prog.g
            r1 = f(1)
            g(1)
            n1 = len(prog.trace)
            r2 = f(1)
            check("second-call-is-a-hit", len(prog.trace) == n1 and r2 == r1 == 2, (prog.trace, r1, r2))
            mem = f.memento(1)
            check("memento-found", mem is not None, None)
            lst = f.list_mementos()
            check("list_mementos-has-exactly-it", len(lst) == 1 and lst[0].invocation_metadata.fn_reference_with_args.arg_hash
                  == mem.invocation_metadata.fn_reference_with_args.arg_hash, [repr(x)[:80] for x in lst])
            fns = list_memoized_functions(cluster)
            names = sorted(r.qualified_name for r in fns)
            expect = sorted([f.fn_reference().qualified_name, g.fn_reference().qualified_name])
            check("list_memoized_functions-exact", names == expect, (names, expect))
            for r in fns:
                if r.qualified_name == f.fn_reference().qualified_name:
                    parts = FunctionReference.parse_qualified_name(r.qualified_name)
                    check("listed-parts", (parts["cluster"], parts["module"], parts["function"], parts["version"])
                          == (cluster, prog.name, "f", version), parts)
                    # a caller that edits the parts it was given does not change what the next parse returns
                    parts.pop("version")
                    parts["module"] = "edited"
                    again = FunctionReference.parse_qualified_name(r.qualified_name)
                    check("parse-result-is-not-shared-with-earlier-callers", (again["cluster"], again["module"], again["function"], again.get("version"))
                          == (cluster, prog.name, "f", version), again)
                    check("listed-reference-is-local", not r.external, repr(r))
            f.forget(1)
            check("forget-then-miss", f.memento(1) is None, None)
            f(1)
            check("forget-makes-exactly-that-call-run-again", len(prog.trace) == n1 + 1, prog.trace)
        finally:
            prog.close()
            sb.close()


EVOLUTIONS = ["edited", "reversioned", "removed", "plain", "reclustered", "unchanged"]


@obligation(
    "C12.evolution",
    covers=("stale-reference-external", "default-cluster", "named-cluster", "entry-read-before-the-change", "store-listed-before-the-entry-is-read"),
    split={"store": [0, 1]},
    bounds="caller p (version pinned) -> callee q; q then edited / given another explicit version / removed / replaced by a plain "
           "function / moved to another cluster / unchanged; the stored entry read once before the change or not; after the change the "
           "store's functions are listed (and the old name resolved on its own) before the caller's entry is read, or not; default and named "
           "cluster; memory and fs stores",
    variables="choice: evolution, cluster bit, callee auto/explicit version, read-before bit, list-first bit, store",
    budget_s={"quick": 120, "thorough": 300},
    choice_vars=5,
)
def evolution(ev: int, named: bool, q_explicit: bool, read_before: bool, store: int, list_first: bool = False):
    evo = EVOLUTIONS[pick(ev, len(EVOLUTIONS))]
    rb = True if read_before else False
    lf = True if list_first else False
    cluster = "cl" if named else None
    kind = STORES[store]
    cover("named-cluster" if named else "default-cluster")
    qx = True if q_explicit else False
    with concrete_region():
        sb = Sandbox(kinds=kind, clusters={"cl": kind, "other": kind})
        prog = Program(_fresh_module_name())
        try:
            def qdecor(ver, cl):
                a = []
                if ver is not None:
                    a.append("version=%r" % ver)
                if cl:
                    a.append("cluster=%r" % cl)
                return "@m.memento_function(%s)" % ", ".join(a) if a else "@m.memento_function"

            p_src = _decor("1", cluster) + "\ndef p(x):\n    _trace.append(('p', x))\n    return q(x) + 1\n"
            q_src = qdecor("q1" if qx else None, cluster) + "\ndef q(x):\n    _trace.append(('q', x))\n    return x * 2\n\n"
            prog.exec(q_src + p_src)
            r1 = prog.p(3)
            check("first-run", r1 == 7, r1)
            old_q = prog.q.fn_reference().qualified_name
            if rb:
                # the stored entry is read (decoded, listed) once BEFORE the code base evolves: what was resolved then must not
                # be what is reported afterwards
                cover("entry-read-before-the-change")
                m0 = prog.p.memento(3)
                check("readable-before-the-change", m0 is not None and len(prog.p.list_mementos()) == 1, None)
                list_memoized_functions(cluster)
            # ---- the code base evolves
            if evo == "edited":
                q2 = qdecor("q1" if qx else None, cluster) + "\ndef q(x):\n    _trace.append(('q', x))\n    return x * 3\n\n"
            elif evo == "reversioned":
                q2 = qdecor("q2", cluster) + "\ndef q(x):\n    _trace.append(('q', x))\n    return x * 2\n\n"
            elif evo == "removed":
                q2 = "del q\n"
            elif evo == "plain":
                q2 = "def q(x):\n    return x * 2\n\n"
            elif evo == "reclustered":
                q2 = qdecor("q1" if qx else None, "other") + "\ndef q(x):\n    _trace.append(('q', x))\n    return x * 2\n\n"
            else:
                q2 = q_src
            prog.exec(q2 + p_src)
            stale = True
            if evo == "unchanged" or (evo == "edited" and qx):
                stale = False  # same qualified name still resolves to the current q
            if evo not in ("removed", "plain"):
                stale = stale and prog.q.fn_reference().qualified_name != old_q
            elif evo in ("removed", "plain"):
                stale = True
            n = len(prog.trace)
            if lf:
                # the store is LISTED (names resolved without any recorded parameter names) before the caller's entry is read
                cover("store-listed-before-the-entry-is-read")
                list_memoized_functions(cluster)
                sb.storage(cluster).list_functions() if cluster else sb.storage().list_functions()
                FunctionReference.from_qualified_name(old_q)
            r2 = prog.p(3)
            check("pinned-caller-is-served", r2 == 7 and len(prog.trace) == n, (r2, prog.trace[n:]))
            mem = prog.p.memento(3)
            check("memento-readable", mem is not None, None)
            lst = prog.p.list_mementos()
            check("list_mementos-readable", len(lst) == 1, len(lst))
            fns = list_memoized_functions(cluster)
            check("list_memoized_functions-readable", any(r.qualified_name == prog.p.fn_reference().qualified_name for r in fns),
                  [r.qualified_name for r in fns])
            mem.trace()
            inv = mem.invocation_metadata.invocations
            check("one-invocation-recorded", len(inv) == 1, [i.fn_reference.qualified_name for i in inv])
            got_parts = FunctionReference.parse_qualified_name(inv[0].fn_reference.qualified_name)
            old_parts = FunctionReference.parse_qualified_name(old_q)
            check("recorded-invocation-name-is-a-valid-qualified-name-of-the-same-function-and-version",
                  all(got_parts[k_] == old_parts[k_] for k_ in ("module", "function", "version")), (inv[0].fn_reference.qualified_name, old_q))
            check("recorded-invocation-arguments-preserved", tuple(inv[0].args) + tuple(inv[0].kwargs.values()) == (3,) and
                  inv[0].effective_kwargs == {"x": 3}, (inv[0].args, inv[0].kwargs))
            check("invocation-name-preserved", inv[0].fn_reference.qualified_name == old_q,
                  (inv[0].fn_reference.qualified_name, old_q))
            if stale:
                cover("stale-reference-external")
                check("stale-reference-reported-external", inv[0].fn_reference.external is True, repr(inv[0].fn_reference))
            else:
                check("current-reference-is-local", inv[0].fn_reference.external is False, repr(inv[0].fn_reference))
        finally:
            prog.close()
            sb.close()


@obligation(
    "C12.evolution_fn_argument",
    covers=("stale-argument-external", "default-cluster", "named-cluster", "entry-read-before-the-change"),
    split={"store": [0, 1, 3]},
    bounds="caller p (version pinned) invoked with the memento function q as an ARGUMENT VALUE (bare or with a partially bound value); q "
           "then edited / re-versioned / removed / replaced by a plain function / unchanged; the stored entry is read once before the "
           "change or not; default and named cluster; memory, fs, fs+cache: the stored entry stays listable and readable, its recorded "
           "argument keeps q's old name and version (as an external reference when that version is gone)",
    variables="choice: evolution, cluster bit, partial bit, read-before bit, store",
    budget_s={"quick": 120, "thorough": 300},
    choice_vars=5,
)
def evolution_fn_argument(ev: int, named: bool, partial: bool, read_before: bool, store: int):
    evo = ["edited", "reversioned", "removed", "plain", "unchanged"][pick(ev, 5)]
    cluster = "cl" if named else None
    kind = STORES[store]
    cover("named-cluster" if named else "default-cluster")
    pt = True if partial else False
    rb = True if read_before else False
    with concrete_region():
        sb = Sandbox(kinds=kind, clusters={"cl": kind})
        prog = Program(_fresh_module_name())
        try:
            p_src = _decor("1", cluster) + "\ndef p(x, h):\n    _trace.append(('p', x))\n    return 1\n"
            q_src = (("@m.memento_function(cluster=%r)" % cluster) if cluster else "@m.memento_function") + \
                "\ndef q(a, x=0):\n    _trace.append(('q', x))\n    return x * 2\n\n"
            prog.exec(q_src + p_src)
            arg = prog.q.partial(7) if pt else prog.q
            check("first-run", prog.p(3, arg) == 1, None)
            old_q = prog.q.fn_reference().qualified_name
            if rb:
                cover("entry-read-before-the-change")
                check("readable-before-the-change", len(prog.p.list_mementos()) == 1 and prog.p.memento(3, arg) is not None, None)
            if evo == "edited":
                q2 = q_src.replace("x * 2", "x * 3")
            elif evo == "reversioned":
                q2 = q_src.replace("@m.memento_function(", "@m.memento_function(version='q2', ").replace("@m.memento_function\n", "@m.memento_function(version='q2')\n")
            elif evo == "removed":
                q2 = "del q\n"
            elif evo == "plain":
                q2 = "def q(a, x=0):\n    return x * 2\n\n"
            else:
                q2 = q_src
            prog.exec(q2)
            stale = evo != "unchanged"
            lst = prog.p.list_mementos()
            check("list_mementos-readable", len(lst) == 1, len(lst))
            fns = list_memoized_functions(cluster)
            check("list_memoized_functions-readable", any(r.qualified_name == prog.p.fn_reference().qualified_name for r in fns),
                  [r.qualified_name for r in fns])
            fa = lst[0].invocation_metadata.fn_reference_with_args
            rec = fa.effective_kwargs["h"]
            rec_ref = rec.fn_reference() if hasattr(rec, "fn_reference") and callable(getattr(rec, "fn_reference")) else rec
            check("recorded-argument-keeps-the-old-name-and-version", rec_ref.qualified_name == old_q, (rec_ref.qualified_name, old_q))
            if pt:
                check("recorded-argument-keeps-its-bound-value", tuple(rec_ref.partial_args or ()) == (7,), rec_ref.partial_args)
            if stale and kind != "memory":
                cover("stale-argument-external")
                check("stale-argument-reported-external", rec_ref.external is True, repr(rec_ref))
            if kind == "memory":
                cover("stale-argument-external")  # memory keeps live objects (known finding KF-C12-memory-live-objects for invocations)
            if not stale:
                n = len(prog.trace)
                check("unchanged-program-is-served", prog.p(3, prog.q.partial(7) if pt else prog.q) == 1 and len(prog.trace) == n, None)
        finally:
            prog.close()
            sb.close()
