"""
C16 - context arguments key results, flow to nested calls, stay out of parameters.
"""
from vp.engine import assume, check, cover, note, obligation, pick
from vp.memenv import Program, Sandbox, concrete_region

# root(x) -> mid(x) -> leaf(x); each inner edge may attach its own context args (which replace the inherited ones entirely)
SRC = (
    "_EDGE = {'mid': None, 'leaf': None, 'side': None}\n"
    "_STYLE = ['call']\n"
    "def _call(fn, name, x):\n"
    "    o = _EDGE[name]\n"
    "    if o is not None:\n"
    "        fn = fn.with_context_args(dict(o))\n"
    "    return _invoke(fn, x)\n"
    "def _invoke(fn, x):\n"
    "    if _STYLE[0] == 'call':\n"
    "        return fn(x)\n"
    "    if _STYLE[0] == 'call_batch':\n"
    "        return fn.call_batch([{'x': x}])[0]\n"
    "    return fn.map_over_range(x=[x])[x]\n"
    "@m.memento_function(version='1')\n"
    "def leaf(x):\n"
    "    _trace.append(('leaf', x))\n"
    "    return x + 1\n"
    "@m.memento_function(version='1')\n"
    "def side(x):\n"
    "    _trace.append(('side', x))\n"
    "    return 0\n"
    "@m.memento_function(version='1')\n"
    "def mid(x):\n"
    "    _trace.append(('mid', x))\n"
    "    return _call(leaf, 'leaf', x) * 2\n"
    "@m.memento_function(version='1')\n"
    "def root(x, **kw):\n"
    "    _trace.append(('root', x, tuple(sorted(kw))))\n"
    "    return _call(mid, 'mid', x) + 1 + _call(side, 'side', x)\n"
)
CTX = [None, {}, {"a": 1}, {"a": 2}, {"b": 1}, {"a": 1, "b": [1, {"c": None}]}]
OVR = [None, {}, {"b": 7}, {"a": 1}]
STORES = ["memory", "fs", "fs+cache:1"]


def _eff(*chain):
    """nearest override else inherited; {} and None both mean 'nothing attached' at the root, but an explicit {} on an
    inner edge is still an override object... the documented rule: context is only inherited when the call does not attach
    its own (context_args is None)."""
    cur = None
    for c in chain:
        if c is not None:
            cur = c
    return cur or {}


STYLES = ["call", "call_batch", "map_over_range"]


@obligation(
    "C16.flow",
    covers=("inherited", "overridden", "override-replaces-entirely", "premem-subcall", "style:call", "style:call_batch", "style:map_over_range",
            "sibling-edge-with-its-own-override"),
    split={"store": [0, 1, 2], "ri": list(range(len(CTX)))},
    bounds="tree root -> {mid -> leaf, side}; root context from a catalogue of 6 dictionaries (None, {}, one key, other value, other key, nested); "
           "override on each of the three inner edges from a catalogue of 4 (none, {}, other key, same as root); every subset of {mid, leaf} memoized "
           "beforehand under the effective context; every call of the scenario made as fn(x), through call_batch, or through "
           "map_over_range; 3 stores",
    variables="choice: root context, two edge overrides, pre-memoized subset, call style",
    budget_s={"quick": 170, "thorough": 600},
    choice_vars=4,
)
def flow(ri: int, mi: int, li: int, si: int, pre: int, style: int, store: int):
    style = pick(style, 3)
    si = pick(si, len(OVR))
    mi = pick(mi, len(OVR))
    li = pick(li, len(OVR))
    pre = pick(pre, 4)
    with concrete_region():
        rc, mo, lo = CTX[ri], OVR[mi], OVR[li]
        sb = Sandbox(kinds=STORES[store])
        prog = Program("vpc16")
        try:
            prog.exec(SRC)
            prog._EDGE["mid"], prog._EDGE["leaf"] = mo, lo
            so_ = OVR[si]
            prog._EDGE["side"] = so_  # a SIBLING edge of root with its own override: must not leak into / from the mid branch
            eff_side = _eff(rc, so_)
            if so_ is not None:
                cover("sibling-edge-with-its-own-override")
            prog._STYLE[0] = STYLES[style]  # how every call of the scenario is made: fn(x), call_batch, map_over_range
            cover("style:" + STYLES[style])
            inv_ = prog._invoke
            root, mid, leaf = prog.root, prog.mid, prog.leaf
            eff_root = _eff(rc)
            eff_mid = _eff(rc, mo)
            eff_leaf = _eff(rc, mo, lo)
            if mo is None and lo is None and rc:
                cover("inherited")
            if mo or lo:
                cover("overridden")
            if rc and mo and set(mo) != set(rc):
                cover("override-replaces-entirely")
            # pre-memoize sub-calls under their effective contexts (top-level calls with explicit context)
            if pre & 1:
                cover("premem-subcall")
                inv_(leaf.with_context_args(dict(eff_leaf)), 1) if eff_leaf else inv_(leaf, 1)
            if pre & 2:
                prog._EDGE["mid"] = None
                prog._EDGE["leaf"] = lo
                (inv_(mid.with_context_args(dict(eff_mid)), 1) if eff_mid else inv_(mid, 1))
                prog._EDGE["mid"] = mo
            n0 = len(prog.trace)
            r = inv_(root.with_context_args(dict(rc)) if rc is not None else root, 1)
            check("value", r == 5, r)
            ran = [t[0] for t in list(prog.trace)[n0:]]
            expect_ran = ["root"] + ([] if pre & 2 else ["mid"] + ([] if pre & 1 else ["leaf"])) + ["side"]
            check("premem-subcalls-under-effective-context-are-hits", ran == expect_ran, (ran, expect_ran))
            for t in list(prog.trace):
                if t[0] == "root":
                    check("body-parameters-never-contain-context-args", t[2] == (), t)
            # recorded contexts
            rf = root.with_context_args(dict(rc)) if rc is not None else root
            mem = rf.memento(1)
            check("root-memento-under-its-context", mem is not None, None)
            check("root-context-recorded", mem.invocation_metadata.fn_reference_with_args.context_args == eff_root,
                  mem.invocation_metadata.fn_reference_with_args.context_args)
            inv = mem.invocation_metadata.invocations
            check("mid-invocation-context", len(inv) == 2 and inv[0].context_args == eff_mid, [i.context_args for i in inv])
            check("sibling-invocation-context", len(inv) == 2 and inv[1].context_args == eff_side, [i.context_args for i in inv])
            sm_ = (prog.side.with_context_args(dict(eff_side)) if eff_side else prog.side).memento(1)
            check("sibling-stored-under-its-effective-context", sm_ is not None, None)
            mm = (mid.with_context_args(dict(eff_mid)) if eff_mid else mid).memento(1)
            check("mid-stored-under-effective-context", mm is not None, None)
            inv2 = mm.invocation_metadata.invocations
            check("leaf-invocation-context", len(inv2) == 1 and inv2[0].context_args == eff_leaf, [i.context_args for i in inv2])
            lm = (leaf.with_context_args(dict(eff_leaf)) if eff_leaf else leaf).memento(1)
            check("leaf-stored-under-effective-context", lm is not None, None)
            # identity: another context is another call
            other = {"a": 99}
            n1 = len(prog.trace)
            inv_(root.with_context_args(other), 1)
            check("different-context-is-a-miss", ("root", 1, ()) in list(prog.trace)[n1:], list(prog.trace)[n1:])
            n2 = len(prog.trace)
            inv_(rf, 1)
            check("same-context-is-a-hit", len(prog.trace) == n2, list(prog.trace)[n2:])
            if eff_root:
                n3 = len(prog.trace)
                inv_(root, 1)
                check("no-context-is-separate-from-context", len(prog.trace) > n3, None)
        finally:
            prog.close()
            sb.close()


LOOKALIKE_VALUES = [1, True, 1.0, "1", 0, False, 0.0, -0.0, None, [1], [True], [1.0]]


def _trepr(v):
    return "%s:%r" % (type(v).__name__, v)


@obligation(
    "C16.lookalike_contexts",
    covers=("python-equal-but-distinct-contexts", "identical-contexts", "different-contexts"),
    split={"i": list(range(len(LOOKALIKE_VALUES)))},
    bounds="two context dictionaries {'mode': v1}, {'mode': v2} with v1, v2 from %d look-alike values (1 / True / 1.0 / '1', 0 / False / "
           "0.0 / -0.0, None, [1] / [True] / [1.0]) used one after the other in ONE process on the tree root -> mid -> leaf (memory and fs): the "
           "second context is served from the first one's results iff it is the same context (same type and value); otherwise every "
           "body of the tree runs again, and the recorded context arguments of the root and of the nested calls are exactly the second "
           "dictionary; the first context remains a hit afterwards" % len(LOOKALIKE_VALUES),
    variables="choice: v1, v2, store",
    budget_s={"quick": 120, "thorough": 300},
    choice_vars=3,
)
def lookalike_contexts(i: int, j: int, store: int):
    j = pick(j, len(LOOKALIKE_VALUES))
    store = pick(store, 2)
    with concrete_region():
        v1, v2 = LOOKALIKE_VALUES[i], LOOKALIKE_VALUES[j]
        same = _trepr(v1) == _trepr(v2)
        if same:
            cover("identical-contexts")
        elif v1 == v2:
            cover("python-equal-but-distinct-contexts")
        else:
            cover("different-contexts")
        sb = Sandbox(kinds=STORES[store])
        prog = Program("vpc16l")
        try:
            prog.exec(SRC)
            root, mid, leaf = prog.root, prog.mid, prog.leaf
            c1, c2 = {"mode": v1}, {"mode": v2}
            root.with_context_args(dict(c1))(1)
            n0 = len(prog.trace)
            r = root.with_context_args(dict(c2))(1)
            check("value", r == 5, r)
            ran = sorted(t[0] for t in list(prog.trace)[n0:])
            want = [] if same else ["leaf", "mid", "root", "side"]
            check("second-context-served-from-the-first-iff-it-is-the-same-context", ran == want, (_trepr(v1), _trepr(v2), ran))
            for fn, nm in ((root, "root"), (mid, "mid"), (leaf, "leaf")):
                mem = fn.with_context_args(dict(c2)).memento(1)
                check(nm + "-stored-under-the-second-context", mem is not None, (nm, _trepr(v2)))
                got = mem.invocation_metadata.fn_reference_with_args.context_args
                check(nm + "-recorded-context-is-exactly-the-second-dictionary", list(got) == ["mode"] and _trepr(got["mode"]) == _trepr(v2),
                      (nm, _trepr(got.get("mode")), _trepr(v2)))
                for inv in mem.invocation_metadata.invocations:
                    g_ = inv.context_args
                    check(nm + "-nested-invocation-context-is-exactly-the-second-dictionary", list(g_) == ["mode"] and _trepr(g_["mode"]) == _trepr(v2),
                          (nm, _trepr(g_.get("mode")), _trepr(v2)))
            n1 = len(prog.trace)
            root.with_context_args(dict(c1))(1)
            root.with_context_args(dict(c2))(1)
            check("both-contexts-are-hits-afterwards", len(prog.trace) == n1, list(prog.trace)[n1:])
        finally:
            prog.close()
            sb.close()


FAIL_KINDS = ["returns", "raises-a-memoized-exception", "raises-NonMemoizedException", "nested-call-prevented", "nested-call-raises-NonMemoizedException",
              "batch-with-a-NonMemoizedException-element"]
SRC_FAIL = (
    "from twosigma.memento.exception import NonMemoizedException\n"
    "@m.memento_function(version='1')\n"
    "def plain(x):\n    _trace.append(('plain', x)); return x + 1\n"
    "@m.memento_function(version='1')\n"
    "def inner_nm(x):\n    _trace.append(('inner_nm', x)); raise NonMemoizedException('transient')\n"
    "_KIND = [0]\n"
    "@m.memento_function(version='1')\n"
    "def first(x):\n"
    "    _trace.append(('first', x))\n"
    "    k = _KIND[0]\n"
    "    if k == 1: raise ValueError('boom')\n"
    "    if k == 2: raise NonMemoizedException('transient')\n"
    "    if k == 3: return plain.with_prevent_further_calls(True)(x) + plain(x + 50)\n"
    "    if k == 4: return inner_nm(x)\n"
    "    if k == 5: return inner_nm.call_batch([{'x': x}, {'x': x + 1}])\n"
    "    return x\n"
)


@obligation(
    "C16.context_ends_with_the_call",
    covers=tuple("first-call:" + k for k in FAIL_KINDS),
    split={"kind": list(range(len(FAIL_KINDS)))},
    bounds="a call under context arguments {'a': 1} that returns / raises a memoized exception / raises NonMemoizedException / has a "
           "nested call (made with further calls prevented, or raising NonMemoizedException, singly or in a batch) - made as fn(x), "
           "call_batch or map_over_range - is followed ON THE SAME THREAD by a plain call without context: that call is keyed, stored "
           "and recorded without context arguments (a later plain call hits it, a call under the earlier context misses it), and no "
           "frame of the first call is left on the call stack; 3 stores",
    variables="choice: how the first call ends, call style, store",
    budget_s={"quick": 120, "thorough": 300},
    choice_vars=3,
)
def context_ends_with_the_call(kind: int, style: int, store: int):
    from twosigma.memento.call_stack import CallStack

    style = pick(style, 3)
    store = pick(store, 3)
    with concrete_region():
        cover("first-call:" + FAIL_KINDS[kind])
        sb = Sandbox(kinds=STORES[store])
        prog = Program("vpc16f")
        try:
            prog.exec(SRC_FAIL)
            prog._KIND[0] = kind
            c1 = {"a": 1}
            fc = prog.first.with_context_args(dict(c1))
            try:
                if style == 0:
                    fc(1)
                elif style == 1:
                    fc.call_batch([{"x": 1}], raise_first_exception=True)
                else:
                    fc.map_over_range(x=[1])
            except Exception:  # noqa - how the first call ends is the scenario, not the subject
                pass
            check("call-stack-empty-after-the-first-call", CallStack.get().depth() == 0, CallStack.get().depth())
            n0 = len(prog.trace)
            r = prog.plain(7)
            check("plain-call-value", r == 8, r)
            mem = prog.plain.memento(7)
            check("plain-call-stored-without-context", mem is not None, None)
            got = mem.invocation_metadata.fn_reference_with_args.context_args
            check("plain-call-recorded-without-context-arguments", got == {}, got)
            check("nothing-stored-under-the-earlier-context", prog.plain.with_context_args(dict(c1)).memento(7) is None, None)
            n1 = len(prog.trace)
            prog.plain(7)
            check("later-plain-call-hits", len(prog.trace) == n1, list(prog.trace)[n1:])
            prog.plain.with_context_args(dict(c1))(7)
            check("call-under-the-earlier-context-is-a-different-call", len(prog.trace) == n1 + 1, list(prog.trace)[n1:])
            check("call-stack-empty-afterwards", CallStack.get().depth() == 0, CallStack.get().depth())
        finally:
            prog.close()
            sb.close()


@obligation(
    "C16.prevent",
    covers=("prevented", "allowed-when-memoized-too"),
    split={"store": [0, 1]},
    bounds="root called with further calls prevented: nested memento call raises RuntimeError, nested body never runs - whether or not the "
           "nested call is already memoized; context x 3; nested call through call / call_batch / partial",
    variables="choice: context, nested memoized bit, nested call style",
    budget_s={"quick": 120, "thorough": 300},
    choice_vars=3,
)
def prevent(ci: int, premem: bool, style: int, store: int):
    ci = pick(ci, 3)
    style = pick(style, 3)
    pm = True if premem else False
    with concrete_region():
        sb = Sandbox(kinds=STORES[store])
        prog = Program("vpc16p")
        try:
            prog.exec(
                "_STYLE = [0]\n"
                "@m.memento_function(version='1')\n"
                "def inner(x, y=0):\n"
                "    _trace.append(('inner', x))\n"
                "    return x\n"
                "@m.memento_function(version='1')\n"
                "def outer(x):\n"
                "    _trace.append(('outer', x))\n"
                "    try:\n"
                "        if _STYLE[0] == 0:\n"
                "            inner(x)\n"
                "        elif _STYLE[0] == 1:\n"
                "            inner.call_batch([{'x': x}])\n"
                "        else:\n"
                "            inner.partial(y=0)(x)\n"
                "    except RuntimeError as e:\n"
                "        return 'prevented: ' + type(e).__name__\n"
                "    return 'ran'\n"
            )
            prog._STYLE[0] = style
            ctx = [None, {"a": 1}, {}][ci]
            outer = prog.outer if ctx is None else prog.outer.with_context_args(ctx)
            if pm:
                cover("allowed-when-memoized-too")
                (prog.inner if not ctx else prog.inner.with_context_args(ctx))(1)
            n0 = len(prog.trace)
            r = outer.with_prevent_further_calls(True)(1)
            cover("prevented")
            check("nested-call-fails-with-RuntimeError", r == "prevented: RuntimeError", r)
            check("nested-body-did-not-run", ("inner", 1) not in list(prog.trace)[n0:], list(prog.trace)[n0:])
            r2 = outer.with_prevent_further_calls(False)(2)
            check("allowed-when-not-prevented", r2 == "ran", r2)
        finally:
            prog.close()
            sb.close()


@obligation(
    "C16.prevent_inner",
    covers=("guard-at-inner-edge", "sibling-unaffected"),
    split={"store": [0, 1]},
    bounds="top -> {outer (attached with_prevent_further_calls(True) at this INNER edge) -> inner, sibling}: inside the guarded call every "
           "nested memento call raises RuntimeError and runs no body (memoized beforehand or not), while the caller that attached the guard "
           "goes on calling other functions freely; nested call through call / call_batch / partial; guard attached via call / call_batch",
    variables="choice: nested memoized bit, nested call style, guard style",
    budget_s={"quick": 120, "thorough": 300},
    choice_vars=3,
)
def prevent_inner(premem: bool, style: int, gstyle: int, store: int):
    style = pick(style, 3)
    gstyle = pick(gstyle, 2)
    pm = True if premem else False
    with concrete_region():
        sb = Sandbox(kinds=STORES[store])
        prog = Program("vpc16q")
        try:
            prog.exec(
                "_STYLE = [0, 0]\n"
                "@m.memento_function(version='1')\n"
                "def inner(x, y=0):\n"
                "    _trace.append(('inner', x))\n"
                "    return x\n"
                "@m.memento_function(version='1')\n"
                "def sibling(x):\n"
                "    _trace.append(('sibling', x))\n"
                "    return inner(x + 10)\n"
                "@m.memento_function(version='1')\n"
                "def outer(x):\n"
                "    _trace.append(('outer', x))\n"
                "    try:\n"
                "        if _STYLE[0] == 0:\n"
                "            inner(x)\n"
                "        elif _STYLE[0] == 1:\n"
                "            inner.call_batch([{'x': x}])\n"
                "        else:\n"
                "            inner.partial(y=0)(x)\n"
                "    except RuntimeError as e:\n"
                "        return 'prevented: ' + type(e).__name__\n"
                "    return 'ran'\n"
                "@m.memento_function(version='1')\n"
                "def top(x):\n"
                "    _trace.append(('top', x))\n"
                "    guarded = outer.with_prevent_further_calls(True)\n"
                "    a = guarded(x) if _STYLE[1] == 0 else guarded.call_batch([{'x': x}])[0]\n"
                "    b = sibling(x)\n"
                "    return [a, b]\n"
            )
            prog._STYLE[0], prog._STYLE[1] = style, gstyle
            if pm:
                prog.inner(1)
            n0 = len(prog.trace)
            r = prog.top(1)
            cover("guard-at-inner-edge")
            check("nested-call-inside-the-guarded-call-fails-with-RuntimeError", r[0] == "prevented: RuntimeError", r)
            check("nested-body-did-not-run", ("inner", 1) not in list(prog.trace)[n0:], list(prog.trace)[n0:])
            cover("sibling-unaffected")
            check("caller-that-attached-the-guard-keeps-calling-freely", r[1] == 11 and ("inner", 11) in list(prog.trace)[n0:], (r, list(prog.trace)[n0:]))
        finally:
            prog.close()
            sb.close()
