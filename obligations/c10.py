"""
C10 - provenance is exact and independent of what was already memoized.

Generated call trees over N nodes; the record of the root call must be the same for every subset of
sub-calls that is already memoized when the root runs.
"""
import os

from vp.engine import assume, check, cover, note, obligation, pick
from vp.memenv import Program, Sandbox, concrete_region

STYLES = ["plain", "batch", "partial", "twice", "failing", "batch-dup"]
STORES = ["memory", "fs", "fs+cache:1"]


def gen_source(parents, styles, resource_root):
    """node i (i>0) is called by parents[i]; styles[i] says how. Children are called in index order."""
    n = len(parents)
    children = {i: [j for j in range(1, n) if parents[j] == i] for i in range(n)}
    out = ["RES = [None]\n"]
    for i in reversed(range(n)):
        body = ["    _trace.append(('n%d', x))\n" % i]
        if i == 0 and resource_root:
            body.append("    m.file_resource(RES[0])\n")
        for j in children[i]:
            st = STYLES[styles[j]]
            if st == "plain":
                body.append("    n%d(x)\n" % j)
            elif st == "batch":
                body.append("    n%d.call_batch([{'x': x}, {'x': x + 1}])\n" % j)
            elif st == "batch-dup":
                body.append("    n%d.call_batch([{'x': x}, {'x': x + 1}, {'x': x}])\n" % j)
            elif st == "partial":
                body.append("    n%d.partial(x)()\n" % j)
            elif st == "twice":
                body.append("    n%d(x)\n    n%d(x)\n" % (j, j))
            else:
                body.append("    try:\n        n%d(x, True)\n    except ValueError:\n        pass\n" % j)
        body.append("    if fail:\n        raise ValueError('n%d failed')\n" % i)
        body.append("    return %d\n" % i)
        out.append("@m.memento_function\ndef n%d(x, fail=False):\n%s\n" % (i, "".join(body)))
    return "".join(out)


def expected_invocations(i, parents, styles, x):
    """direct invocations of node i called with x: list of (function name, effective kwargs)"""
    n = len(parents)
    out = []
    for j in range(1, n):
        if parents[j] != i:
            continue
        st = STYLES[styles[j]]
        if st == "plain":
            out.append(("n%d" % j, {"x": x}))
        elif st == "batch":
            out.append(("n%d" % j, {"x": x}))
            out.append(("n%d" % j, {"x": x + 1}))
        elif st == "batch-dup":
            out.append(("n%d" % j, {"x": x}))
            out.append(("n%d" % j, {"x": x + 1}))
            out.append(("n%d" % j, {"x": x}))
        elif st == "partial":
            out.append(("n%d" % j, {"x": x}))
        elif st == "twice":
            out.append(("n%d" % j, {"x": x}))
            out.append(("n%d" % j, {"x": x}))
        else:
            out.append(("n%d" % j, {"x": x, "fail": True}))
    return out


def descendants(i, parents):
    n = len(parents)
    out = {i}
    changed = True
    while changed:
        changed = False
        for j in range(1, n):
            if parents[j] in out and j not in out:
                out.add(j)
                changed = True
    return out


def record(mem):
    im = mem.invocation_metadata
    inv = [(f.fn_reference.function_name, dict(f.effective_kwargs), f.arg_hash) for f in im.invocations]
    res = [(r.resource_type, r.url, r.version) for r in im.resources]
    deps = sorted({r.qualified_name for r in mem.function_dependencies})  # the set of function versions
    return inv, res, deps


def _scenario(parents, styles, resource_root, premem_mask, root_batch, store, second_only=False):
    n = len(parents)
    src = gen_source(parents, styles, resource_root)
    note(src.count("\n"))
    sb = Sandbox(kinds=store)
    prog = Program("vpc10")
    try:
        prog.exec(src)
        res_path = os.path.join(sb.root, "resource.txt")
        with open(res_path, "w") as f:
            f.write("r")
        prog.RES[0] = res_path
        fns = [getattr(prog, "n%d" % i) for i in range(n)]

        def run_root():
            if root_batch:
                return fns[0].call_batch([{"x": 1}])[0]
            return fns[0](1)

        # 1. fully cold run: the reference record
        run_root()
        cold = record(fns[0].memento(1))
        exp_inv = expected_invocations(0, parents, styles, 1)
        check("cold-invocations-are-exactly-the-direct-calls-in-order", [(a, b) for (a, b, _h) in cold[0]] == exp_inv, (cold[0], exp_inv))
        exp_deps = sorted(fns[i].fn_reference().qualified_name for i in descendants(0, parents))
        check("cold-dependencies-are-exactly-the-transitive-functions", cold[2] == exp_deps, (cold[2], exp_deps))
        check("cold-resources", len(cold[1]) == (1 if resource_root else 0), cold[1])
        # also each inner node's own record
        for i in range(1, n):
            st = STYLES[styles[i]]
            mi = fns[i].memento(1, True) if st == "failing" else (fns[i].memento(1))
            if mi is None:
                check("inner-memento-exists", False, i)
            inv_i = [(a, b) for (a, b, _h) in record(mi)[0]]
            check("inner-invocations", inv_i == expected_invocations(i, parents, styles, 1), (i, inv_i))
            deps_i = sorted(fns[j].fn_reference().qualified_name for j in descendants(i, parents))
            check("inner-dependencies", record(mi)[2] == deps_i, (i, record(mi)[2], deps_i))
        # 2. forget the root and every sub-call NOT in the pre-memoized subset, run again
        fns[0].forget(1)
        kept = []
        for i in range(1, n):
            if premem_mask & (1 << (i - 1)):
                kept.append(i)
                if second_only and STYLES[styles[i]] in ("batch", "batch-dup"):
                    # of a batched sub-call only the LATER element stays memoized: an unmemoized element precedes a memoized one
                    cover("unmemoized-batch-element-before-a-memoized-one")
                    fns[i].forget(1)
                continue
            fns[i].forget_all()
        if kept:
            cover("some-subcalls-memoized-before")
        if len(kept) == n - 1:
            cover("all-subcalls-memoized-before")
        n0 = len(prog.trace)
        run_root()
        ran = {t[0] for t in list(prog.trace)[n0:]}
        check("root-recomputed", "n0" in ran, ran)
        warm = record(fns[0].memento(1))
        check("invocations-independent-of-what-was-memoized", warm[0] == cold[0], (warm[0], cold[0]))
        check("resources-independent-of-what-was-memoized", warm[1] == cold[1], (warm[1], cold[1]))
        check("dependencies-independent-of-what-was-memoized", warm[2] == cold[2], (warm[2], cold[2]))
    finally:
        prog.close()
        sb.close()


def _shape(n, p2, p3):
    parents = [None, 0]
    if n >= 3:
        parents.append(pick(p2, 2))
    if n >= 4:
        parents.append(pick(p3, 3))
    return parents


@obligation(
    "C10.trees",
    covers=("some-subcalls-memoized-before", "all-subcalls-memoized-before", "batched-subcall", "failing-subcall", "repeated-subcall",
            "depth3", "resource", "unmemoized-batch-element-before-a-memoized-one"),
    split={"store": [0, 1, 2], "s1": [0, 1, 2, 3, 4, 5]},
    bounds="call trees over N=4 nodes (all 6 parent arrays), each sub-call made plain / through call_batch (2 distinct elements, or 3 with a repeated one) / through partial / "
           "twice / failing-and-caught, root obtains a file resource or not, root invoked singly or as a batch, x every subset (8) of sub-calls "
           "memoized beforehand (for batched sub-calls also: only the later element memoized); 3 stores. Quick tier: the style of node 3 is tied to node 2's (thorough: free)",
    variables="choice: parents (2), styles (3), resource bit, root batch bit, pre-memoized mask",
    budget_s={"quick": 300, "thorough": 1200},
    tier_args={"quick": {"free3": False}, "thorough": {"free3": True}},
    choice_vars=8,
)
def trees(p2: int, p3: int, s1: int, s2: int, s3: int, res: bool, root_batch: bool, premem: int, second_only: bool, store: int, free3: bool):
    parents = _shape(4, p2, p3)
    s2 = pick(s2, len(STYLES))
    if free3:
        s3 = pick(s3, len(STYLES))
    else:
        s3 = (s2 + 1) % len(STYLES)
    premem = pick(premem, 8)
    if STYLES[s1] in ("batch", "batch-dup"):
        so = True if second_only else False
    else:
        assume(not second_only)
        so = False
    rr = True if res else False
    rb = True if root_batch else False
    styles = [None, s1, s2, s3]
    with concrete_region():
        if "batch" in [STYLES[s] for s in styles[1:]] or "batch-dup" in [STYLES[s] for s in styles[1:]]:
            cover("batched-subcall")
        if "failing" in [STYLES[s] for s in styles[1:]]:
            cover("failing-subcall")
        if "twice" in [STYLES[s] for s in styles[1:]]:
            cover("repeated-subcall")
        if parents[2] == 1 and parents[3] == 2:
            cover("depth3")
        if rr:
            cover("resource")
        _scenario(parents, styles, rr, premem, rb, STORES[store], so)


# ------------------------------------------------------------------------------------------------
# call GRAPHS (not trees): the same function reached several times with different sub-graphs, recursion, diamonds.
# The oracle is the call tree the bodies themselves record (enter / exit events) on the fully cold run.
# ------------------------------------------------------------------------------------------------

GRAPHS = {
    # root calls mid(0) and mid(1); mid picks a different callee per argument
    "same-function-different-subgraphs": (
        "@m.memento_function\ndef left(x):\n    _trace.append(('enter', 'left', x)); _trace.append(('exit',)); return 1\n"
        "@m.memento_function\ndef right(x):\n    _trace.append(('enter', 'right', x)); _trace.append(('exit',)); return 2\n"
        "@m.memento_function\ndef mid(x):\n    _trace.append(('enter', 'mid', x))\n    r = left(x) if x == 0 else right(x)\n"
        "    _trace.append(('exit',)); return r\n"
        "@m.memento_function\ndef root(x):\n    _trace.append(('enter', 'root', x))\n    r = mid(0) + mid(1)\n    _trace.append(('exit',)); return r\n",
        ["mid:0", "mid:1", "left:0", "right:1"]),
    # recursion reaching a helper only at the bottom
    "recursion": (
        "@m.memento_function\ndef base(x):\n    _trace.append(('enter', 'base', x)); _trace.append(('exit',)); return 0\n"
        "@m.memento_function\ndef root(x):\n    _trace.append(('enter', 'root', x))\n    r = base(0) if x == 0 else root(x - 1) + 1\n"
        "    _trace.append(('exit',)); return r\n",
        ["root:1", "root:0", "base:0"]),
    # diamond: two callers share a callee
    "diamond": (
        "@m.memento_function\ndef c(x):\n    _trace.append(('enter', 'c', x)); _trace.append(('exit',)); return 3\n"
        "@m.memento_function\ndef a(x):\n    _trace.append(('enter', 'a', x)); r = c(x); _trace.append(('exit',)); return r\n"
        "@m.memento_function\ndef b(x):\n    _trace.append(('enter', 'b', x)); r = c(x) + c(x + 1); _trace.append(('exit',)); return r\n"
        "@m.memento_function\ndef root(x):\n    _trace.append(('enter', 'root', x))\n    r = a(x) + b(x)\n    _trace.append(('exit',)); return r\n",
        ["a:2", "b:2", "c:2", "c:3"]),
    # fan-out over one function through a batch with repeated and distinct arguments, sub-graphs differing per argument
    "batch-fanout": (
        "@m.memento_function\ndef left(x):\n    _trace.append(('enter', 'left', x)); _trace.append(('exit',)); return 1\n"
        "@m.memento_function\ndef right(x):\n    _trace.append(('enter', 'right', x)); _trace.append(('exit',)); return 2\n"
        "@m.memento_function\ndef mid(x):\n    _trace.append(('enter', 'mid', x))\n    r = left(x) if x == 0 else right(x)\n"
        "    _trace.append(('exit',)); return r\n"
        "@m.memento_function\ndef root(x):\n    _trace.append(('enter', 'root', x))\n"
        "    r = sum(mid.call_batch([{'x': 0}, {'x': 1}, {'x': 0}]))\n    _trace.append(('exit',)); return r\n",
        ["mid:0", "mid:1", "left:0", "right:1"]),
    # sub-calls made through modifier clones: results ignored (single and batch), forced local
    "modifier-subcalls": (
        "@m.memento_function\ndef a(x):\n    _trace.append(('enter', 'a', x)); _trace.append(('exit',)); return 1\n"
        "@m.memento_function\ndef b(x):\n    _trace.append(('enter', 'b', x)); _trace.append(('exit',)); return 2\n"
        "@m.memento_function\ndef c(x):\n    _trace.append(('enter', 'c', x)); _trace.append(('exit',)); return 3\n"
        "@m.memento_function\ndef root(x):\n    _trace.append(('enter', 'root', x))\n"
        "    a.ignore_result()(x)\n    b.ignore_result().call_batch([{'x': x}, {'x': x + 1}])\n    r = c.force_local()(x + 5)\n"
        "    _trace.append(('exit',)); return r\n",
        ["a:2", "b:2", "b:3", "c:7"]),
    # one callee invoked with arguments that Python treats as equal (1 == 1.0 == True) but that are distinct calls
    "lookalike-arguments": (
        "@m.memento_function\ndef a(x):\n    _trace.append(('enter', 'a', x)); _trace.append(('exit',)); return repr(x)\n"
        "@m.memento_function\ndef root(x):\n    _trace.append(('enter', 'root', x))\n"
        "    r = a(1) + a(True) + a(1.0) + ''.join(a.call_batch([{'x': 1.0}, {'x': 1}]))\n"
        "    _trace.append(('exit',)); return r\n",
        ["a:1", "a:True", "a:1.0"]),
}
GRAPH_NAMES = sorted(GRAPHS)
ROOT_ARG = {"same-function-different-subgraphs": 5, "recursion": 2, "diamond": 2, "batch-fanout": 5, "modifier-subcalls": 2, "lookalike-arguments": 2}


def _arg(text):
    import ast

    return ast.literal_eval(text)


def _call_tree(events):
    """enter/exit log -> list of (name, x, [children...]) trees (bodies that actually ran)."""
    stack = [("<top>", None, [])]
    for e in events:
        if e[0] == "enter":
            node = (e[1], e[2], [])
            stack[-1][2].append(node)
            stack.append(node)
        else:
            stack.pop()
    return stack[0][2]


def _functions_below(node, known):
    """transitive function names of a body that ran; a child whose body did not run again (already memoized within the
    same run) contributes what it contributed when it did run: `known` maps (name, x) -> set."""
    out = {node[0]}
    for ch in node[2]:
        out |= _functions_below(ch, known)
    known[(node[0], node[1])] = out
    return out


@obligation(
    "C10.graphs",
    covers=("some-subcalls-memoized-before", "all-subcalls-memoized-before", "recursion", "diamond", "batch-fanout",
            "same-function-different-subgraphs", "modifier-subcalls", "lookalike-arguments"),
    split={"g": list(range(len(GRAPH_NAMES))), "store": [0, 1, 2]},
    bounds="6 call graphs (one callee invoked with 1, True and 1.0 - equal for Python, distinct calls -; one function called with two arguments whose sub-graphs differ; recursion reaching a helper "
           "only at the bottom; a diamond; a batch fan-out with repeated and distinct arguments; sub-calls made through ignore_result() "
           "- single and batch - and force_local() clones) x every subset of the (up to 4) distinct "
           "sub-calls memoized beforehand x root invoked singly or as a batch x 3 stores; oracle = the call tree recorded by the bodies",
    variables="choice: premem mask, root batch bit (graph, store partitioned)",
    budget_s={"quick": 170, "thorough": 600},
    choice_vars=4,
)
def graphs(g: int, store: int, premem: int, root_batch: bool):
    premem = pick(premem, 16)
    rb = True if root_batch else False
    with concrete_region():
        name = GRAPH_NAMES[g]
        cover(name)
        src, subcalls = GRAPHS[name]
        assume(premem < (1 << len(subcalls)))
        sb = Sandbox(kinds=STORES[store])
        prog = Program("vpc10g")
        try:
            prog.exec(src)
            root = prog.root
            arg = ROOT_ARG[name]

            def run_root():
                if rb:
                    return root.call_batch([{"x": arg}])[0]
                return root(arg)

            run_root()
            events = list(prog.trace)
            trees_ = _call_tree(events)
            check("oracle:one-root-body", len(trees_) == 1 and trees_[0][0] == "root", trees_)
            known = {}
            exp_deps_names = _functions_below(trees_[0], known)
            cold = record(root.memento(arg))
            # direct invocations: every call the root body made, in order. Calls whose body did not run a second time
            # (same arguments again) are still invocations: derive them from the source-level call list instead
            exp_direct = {"same-function-different-subgraphs": [("mid", {"x": 0}), ("mid", {"x": 1})],
                          "recursion": [("root", {"x": 1})],
                          "diamond": [("a", {"x": 2}), ("b", {"x": 2})],
                          "batch-fanout": [("mid", {"x": 0}), ("mid", {"x": 1}), ("mid", {"x": 0})],
                          "modifier-subcalls": [("a", {"x": 2}), ("b", {"x": 2}), ("b", {"x": 3}), ("c", {"x": 7})],
                          "lookalike-arguments": [("a", {"x": 1}), ("a", {"x": True}), ("a", {"x": 1.0}), ("a", {"x": 1.0}), ("a", {"x": 1})]}[name]
            check("cold-invocations-are-exactly-the-direct-calls-in-order", repr([(a, b) for (a, b, _h) in cold[0]]) == repr(exp_direct), (cold[0], exp_direct))
            got_names = sorted(q.split(":")[-1].split("#")[0] for q in cold[2])
            check("cold-dependencies-are-exactly-the-functions-reached", got_names == sorted(exp_deps_names), (got_names, sorted(exp_deps_names)))
            # inner records too
            for sc_ in subcalls:
                fn_name, x = sc_.split(":")
                mem = getattr(prog, fn_name).memento(_arg(x))
                check("inner-memento-exists", mem is not None, sc_)
                inner = sorted(q.split(":")[-1].split("#")[0] for q in record(mem)[2])
                want = sorted(known.get((fn_name, _arg(x)), {fn_name}))
                check("inner-dependencies", inner == want, (sc_, inner, want))
            # forget the root call and every sub-call not in the subset, run again
            root.forget(arg)
            kept = 0
            for i, sc_ in enumerate(subcalls):
                if premem & (1 << i):
                    kept += 1
                    continue
                fn_name, x = sc_.split(":")
                getattr(prog, fn_name).forget(_arg(x))
            if kept:
                cover("some-subcalls-memoized-before")
            if kept == len(subcalls):
                cover("all-subcalls-memoized-before")
            run_root()
            warm = record(root.memento(arg))
            check("invocations-independent-of-what-was-memoized", warm[0] == cold[0], (warm[0], cold[0]))
            check("dependencies-independent-of-what-was-memoized", warm[2] == cold[2], (warm[2], cold[2]))
            for sc_ in subcalls:
                fn_name, x = sc_.split(":")
                mem = getattr(prog, fn_name).memento(_arg(x))
                if mem is None:
                    continue  # forgotten, and not recomputed because its caller was served from the store
                inner = sorted(q.split(":")[-1].split("#")[0] for q in record(mem)[2])
                want = sorted(known.get((fn_name, _arg(x)), {fn_name}))
                check("inner-dependencies-after-rerun", inner == want, (sc_, inner, want))
        finally:
            prog.close()
            sb.close()
