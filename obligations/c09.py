"""
C09 - concurrent callers: single flight per call, correct values, consistent cache, under every schedule.

The thread schedule is a variable of the check (DESIGN.md 3.5): the real functions of runner_local, the
memory cache, the storage base class, the memory back-end, the call stack and the call entry points are
recompiled from /repo's current source into step-wise generator twins (vp.gen); logical threads are
generators, the schedule is a list of pre-emption points (global step numbers).  Violations are replayed
on REAL threads (hooked twins of the same source, real RLocks, real threading.local) following the same
schedule step by step before they are reported.
"""
import ast
import gc
import os
import threading
import weakref

import twosigma.memento as m
from twosigma.memento import base as _base
from twosigma.memento import call_stack as _call_stack
from twosigma.memento import memento as _memento
from twosigma.memento import runner as _runner
from twosigma.memento import runner_local as _runner_local
from twosigma.memento import storage_base as _storage_base
from twosigma.memento import storage_filesystem as _storage_filesystem
from twosigma.memento import storage_memory as _storage_memory
from twosigma.memento.reference import FunctionReferenceWithArgHash
from twosigma.memento.storage_base import MemoryCache

from vp import fixtures as fx
from vp import gen, sched
from vp.engine import assume, check, cover, count_runs as engine_count, is_symbolic_run, note, obligation, pick
from vp.memenv import Program, Sandbox, concrete_region, reset_memento_globals, restart_sandbox

# ------------------------------------------------------------------------------------------------
# instrumentation
# ------------------------------------------------------------------------------------------------

_INSTALLED = {"done": False, "twins": [], "refused": []}
_SIZE_EST = ("_pd_mem_usage", "_pd_linreg_mem_usage", "_estimate_object_size")


def install_twins():
    if _INSTALLED["done"]:
        return
    with concrete_region():
        _install_twins()


def _install_twins():
    done, refused = [], []
    plan = [
        (_storage_base.MemoryCache, None, _SIZE_EST + ("__init__",)),
        (_storage_base.StorageBackendBase, ("get_mementos", "read_result", "is_memoized", "is_all_memoized", "memoize",
                                           "forget_call", "forget_function", "forget_everything"), ()),
        (m.StorageBackend, ("get_memento",), ()),
        (_storage_memory.MemoryStorageBackend, None, ("__init__", "to_dict")),
        # the write path down to the filesystem data source (two calls may write one key: a shared override key)
        (_storage_base.Codec, ("store",), ()),
        (_storage_base.Codec.BlobStrategy, ("store",), ()),
        (_storage_base.DataSourceMetadataSource, ("put_memento",), ()),
        (_storage_filesystem._FilesystemDataSource, ("output", "_write_non_versioned_link", "output_metadata", "delete_nonversioned_key",
                                                     "_delete_non_versioned_link"), ()),
        (_call_stack.CallStack, None, ("__init__",)),
        (_base.MementoFunctionBase, ("call", "__call__"), ()),
        (_memento.MementoFunction, ("call", "_filter_call"), ()),
    ]
    for cls, names, ex in plan:
        d, r = gen.register_class(cls, names, ex)
        done += d
        refused += r
    # runner_local: every function and method defined in the module (helpers added later are picked up automatically)
    d, r = gen.register_module(_runner_local, exclude=("__init__", "to_dict"))
    done += d
    refused += r
    gen.register(_runner.process_existing_memento)
    done.append("process_existing_memento")
    _INSTALLED.update(done=True, twins=done, refused=refused)
    if refused:
        raise RuntimeError("could not instrument: %s" % refused)
    _scan_for_uninstrumented_locks()


def _scan_for_uninstrumented_locks():
    """Every `with <lock>` / .acquire( of twosigma/memento must sit in an instrumented function - otherwise
    the cooperative model would not see that lock and could report false races."""
    import inspect

    pkg = os.path.dirname(m.__file__)
    inst = set()
    for f in gen.REG["G"]:
        code = getattr(f, "__wrapped__", f).__code__
        inst.add((code.co_filename, code.co_firstlineno))
    bad = []
    for fn in sorted(os.listdir(pkg)):
        if not fn.endswith(".py") or fn == "runner_test.py":
            continue
        path = os.path.join(pkg, fn)
        tree = ast.parse(open(path).read())
        for node in ast.walk(tree):
            if not isinstance(node, (ast.FunctionDef,)):
                continue
            for sub in ast.walk(node):
                hit = None
                if isinstance(sub, ast.With):
                    for it in sub.items:
                        src = ast.unparse(it.context_expr)
                        if not any(w in src for w in ("open(", "input_", "_do_input", "TextIOWrapper", "tempfile", "warnings", "suppress")):
                            hit = src
                elif isinstance(sub, ast.Call) and isinstance(sub.func, ast.Attribute) and sub.func.attr == "acquire":
                    hit = ast.unparse(sub)
                if hit:
                    first = node.lineno + (0 if not node.decorator_list else 0)
                    cands = {(path, node.lineno)} | {(path, d.lineno) for d in node.decorator_list}
                    if not (cands & inst):
                        bad.append("%s:%d %s: %s" % (fn, sub.lineno, node.name, hit))
    if bad:
        raise RuntimeError("lock used outside the instrumented functions (extend install_twins): %s" % bad)


def run_threads(mode, entries, schedule, max_steps=6000, allow_unfired=False, focus=None):
    """Run logical (G) or real (H) threads under the schedule; returns the driver object."""
    if mode == "G":
        if focus is not None:
            s = sched.FocusSched(entries, schedule, focus, max_steps=max_steps)
        else:
            s = sched.Sched(entries, schedule, max_steps=max_steps, allow_unfired=allow_unfired)
        if not isinstance(getattr(_call_stack, "_call_stack_thread_local", None), (threading.local, sched.CoopLocal)):
            from vp.engine import HarnessUnsupported

            raise HarnessUnsupported("call_stack no longer keeps the per-thread call stack in the module-level threading.local "
                                     "'_call_stack_thread_local': the cooperative scheduler cannot give its logical threads their own "
                                     "(C09.thread_kinds decides the real-thread behaviour; the generator-based obligations need porting)")
        old = _call_stack._call_stack_thread_local
        _call_stack._call_stack_thread_local = sched.CoopLocal(weakref.ref(s))
        try:
            s.run()
            s.call_stacks = dict(object.__getattribute__(_call_stack._call_stack_thread_local, "_vp_data"))
        finally:
            _call_stack._call_stack_thread_local = old
        return s
    s = sched.RealThreads(entries, schedule, max_steps=max_steps)
    s.run()
    s.call_stacks = {}
    s.locks = {}
    return s


# ------------------------------------------------------------------------------------------------
# cache accounting oracle
# ------------------------------------------------------------------------------------------------


def cache_state(cache):
    if cache is None:
        return None
    return {
        "usage": cache.memory_usage,
        "lru": list(cache.lru_deque),
        "resident": {k: (e.obj_size, bool(e.has_value)) for k, e in cache.cache.items()},
    }


def check_cache_invariant(cache, tag=""):
    if cache is None:
        return
    total = 0
    for k, e in cache.cache.items():
        total = total + e.obj_size
    check(tag + "cache:usage==sum(resident sizes)", cache.memory_usage == total, lambda: (cache.memory_usage, total, cache_state(cache)))
    check(tag + "cache:usage<=budget", cache.memory_usage <= cache.memory_cache_bytes, lambda: (cache.memory_usage, cache.memory_cache_bytes))
    dq = list(cache.lru_deque)
    check(tag + "cache:deque-has-no-duplicates", len(dq) == len(set(dq)), dq)
    check(tag + "cache:deque==resident-set", set(dq) == set(cache.cache.keys()), lambda: (dq, sorted(cache.cache.keys())))


# ------------------------------------------------------------------------------------------------
# function-level scenarios (choice variables; run natively once the schedule is picked)
# ------------------------------------------------------------------------------------------------

SRC = (
    "@m.memento_function(version='1')\n"
    "def f(x):\n"
    "    _trace.append(('f', x))\n"
    "    return 'f' * 100 + str(x)\n"
    "@m.memento_function(version='1')\n"
    "def g(x):\n"
    "    _trace.append(('g', x))\n"
    "    return 'g' * 100 + str(x)\n"
    "@m.memento_function(version='1')\n"
    "def ko1(x):\n"
    "    _trace.append(('ko1', x))\n"
    "    return KeyOverrideResult('A' * 60 + str(x), 'shared/override-key')\n"
    "@m.memento_function(version='1')\n"
    "def ko2(x):\n"
    "    _trace.append(('ko2', x))\n"
    "    return KeyOverrideResult('B' * 40 + str(x), 'shared/override-key')\n"
    "@m.memento_function(version='1')\n"
    "def s1(x):\n"
    "    _trace.append(('s1', x))\n"
    "    return 'same-bytes' * 12\n"
    "@m.memento_function(version='1')\n"
    "def s2(x):\n"
    "    _trace.append(('s2', x))\n"
    "    return 'same-bytes' * 12\n"
    "@m.memento_function(version='1')\n"
    "def boom(x):\n"
    "    _trace.append(('boom', x))\n"
    "    raise KeyError('boom%s' % x)\n"
    # nested calls: the bodies are plain functions wrapped afterwards, so that they get twins too (a pre-emption is possible
    # inside the body, while the caller's per-call mutex is held and its frame is on the thread's call stack)
    "NEST = {}\n"
    "def ni(x):\n"
    "    _trace.append(('ni', x))\n"
    "    return 'i' * 50 + str(x)\n"
    "ni = m.memento_function(version='1')(ni)\n"
    "def na(x):\n"
    "    _trace.append(('na', x))\n"
    "    r = ni(NEST.get(('na', x), x))\n"
    "    return 'a' * 40 + r\n"
    "na = m.memento_function(version='1')(na)\n"
    "def nb(x):\n"
    "    _trace.append(('nb', x))\n"
    "    r = ni(NEST.get(('nb', x), x))\n"
    "    return 'b' * 40 + r\n"
    "nb = m.memento_function(version='1')(nb)\n"
)
NESTED_BODIES = ("ni", "na", "nb")
STORES = ["memory", "fs", "fs+cache:1", "fs+cache:small"]
SMALL_MB = 330 / 1048576.0  # budget of 330 bytes: one ~150-byte value plus a few 48-byte mementos fit, two values do not
KEYS = ["same-call", "same-fn-different-args", "different-fns", "same-failing-call", "different-fns-writing-one-override-key",
        "different-fns-producing-the-same-bytes", "same-call-through-modifier-clones", "nested-callers-sharing-one-callee",
        "caller-and-its-own-callee", "nested-calls-crosswise-on-shared-locks"]
NESTED_KEYS = (7, 8, 9)
CROSSWISE = 9
STATES = ["cold", "warm-store-cold-cache", "warm"]


def _kind(store):
    s = STORES[store]
    return "fs+cache:%r" % SMALL_MB if s == "fs+cache:small" else s


class _Clone:
    """a modifier clone of a memento function standing for the SAME call of the original (for the oracles: .fn / memento / forget)"""

    def __init__(self, clone, original, bound=False):
        self.clone, self.original, self.bound = clone, original, bound
        self.fn = original.fn
        self.__name__ = original.__name__

    def call(self, x):
        return self.clone.call() if self.bound else self.clone.call(x)

    def __call__(self, x):
        return self.clone() if self.bound else self.clone(x)

    def memento(self, x):
        return self.original.memento(x)

    def __hash__(self):
        return hash(self.original)

    def __eq__(self, other):
        return getattr(other, "original", other) is self.original


def _entry(fn, x):
    """thread entry: the (instrumented) call method of the memento function / of the modifier clone itself"""
    if isinstance(fn, _Clone):
        return (fn.clone.call, () if fn.bound else (x,), {})
    return (fn.call, (x,), {})


def _calls(prog, key, nthreads):
    k = KEYS[key]
    if k == "same-call":
        return [(prog.f, 1)] * nthreads
    if k == "same-fn-different-args":
        return [(prog.f, i + 1) for i in range(nthreads)]
    if k == "different-fns":
        return [(prog.f, 1), (prog.g, 1), (prog.f, 2)][:nthreads]
    if k == "different-fns-writing-one-override-key":
        return [(prog.ko1, 1), (prog.ko2, 1), (prog.ko1, 2)][:nthreads]
    if k == "different-fns-producing-the-same-bytes":
        return [(prog.s1, 1), (prog.s2, 1), (prog.s1, 2)][:nthreads]
    if k == "same-call-through-modifier-clones":
        # the same call f(1), made through the function itself, a force_local() clone and a partial() clone
        return [(prog.f, 1), (_Clone(prog.f.force_local(), prog.f), 1), (_Clone(prog.f.partial(1), prog.f, bound=True), 1)][:nthreads]
    if k == "nested-callers-sharing-one-callee":
        return [(prog.na, 1), (prog.nb, 1), (prog.na, 2)][:nthreads]
    if k == "caller-and-its-own-callee":
        return [(prog.na, 1), (prog.ni, 1), (prog.nb, 1)][:nthreads]
    if k == "nested-calls-crosswise-on-shared-locks":
        a, b, c, d = _find_shared_locks(prog)
        prog.mod.NEST.update({("na", a): b, ("na", c): d})
        return [(prog.na, a), (prog.na, c)]
    return [(prog.boom, 1)] * nthreads


class _KeepProgram:
    """The generated module is built once per process (function objects persist; stores and memento's per-call
    mutex table / call stacks are fresh per run)."""

    prog = None

    @classmethod
    def get(cls):
        if cls.prog is None:
            cls.prog = Program("vpc09")
            from twosigma.memento.result import KeyOverrideResult

            cls.prog.mod.__dict__["KeyOverrideResult"] = KeyOverrideResult
            cls.prog.exec(SRC)
            cls.prog.close = lambda: None
            for nm in NESTED_BODIES:
                gen.register(getattr(cls.prog.mod, nm).fn, "vpc09." + nm)
        cls.prog.trace.clear()
        cls.prog.mod.NEST.clear()
        return cls.prog


_SHARED = {}


def _find_shared_locks(prog, R=600):
    """Look for invocations that SHARE a per-call lock in the runner's table such that two nested calls take the shared locks in
    opposite orders: na(a) -> ni(b), na(c) -> ni(d) with lock(na(a)) is lock(ni(d)) and lock(na(c)) is lock(ni(b)). Returns
    (a, b, c, d) or None when no two of the 2R invocations examined share a lock (then nothing can be crossed)."""
    if "r" not in _SHARED:
        from twosigma.memento.reference import FunctionReferenceWithArguments as FWA

        reset_memento_globals()
        by_lock, keep = {}, []
        for x in range(R):
            for nm in ("na", "ni"):
                lk = _runner_local._mutex_for_invocation(FWA(getattr(prog.mod, nm).fn_reference(), (x,), {}))
                keep.append(lk)
                again = _runner_local._mutex_for_invocation(FWA(getattr(prog.mod, nm).fn_reference(), (x,), {}))
                check("the-same-invocation-always-gets-the-same-lock", again is lk, (nm, x))
                by_lock.setdefault(id(lk), {"na": [], "ni": []})[nm].append(x)
        both = [v for v in by_lock.values() if v["na"] and v["ni"]]
        r = None
        for i, u in enumerate(both):
            for v in both[i + 1:]:
                a, d, c, b = u["na"][0], u["ni"][0], v["na"][0], v["ni"][0]
                if len({a, c}) == 2 and r is None:
                    r = (a, b, c, d)
        _SHARED["r"] = r
        _SHARED["shared"] = sum(1 for v in by_lock.values() if len(v["na"]) + len(v["ni"]) > 1)
        reset_memento_globals()
    return _SHARED["r"]


def _prepare(store, key, state, nthreads):
    sb = Sandbox(kinds=_kind(store))
    prog = _KeepProgram.get()
    calls = _calls(prog, key, nthreads)
    st = STATES[state]
    if st != "cold":
        for fn, x in dict.fromkeys(calls):
            try:
                fn(x)
            except KeyError:
                pass
        if st == "warm-store-cold-cache":
            restart_sandbox(sb, _kind(store))
        else:
            reset_memento_globals()
    prog.trace.clear()
    return sb, prog, calls


def _nest(nm, x):
    return _KeepProgram.prog.mod.NEST.get((nm, x), x)


_PURE = {"ni": lambda x: "i" * 50 + str(x), "na": lambda x: "a" * 40 + "i" * 50 + str(_nest("na", x)),
         "nb": lambda x: "b" * 40 + "i" * 50 + str(_nest("nb", x))}


def _deps_of(fn, x):
    """the calls recorded as made by fn(x) (memento.invocation_metadata.invocations), as comparable text"""
    mem = fn.memento(x)
    if mem is None:
        return None
    return sorted("%s/%s" % (i.fn_reference.qualified_name, i.arg_hash) for i in mem.invocation_metadata.invocations)


def _expected(calls):
    out = []
    for fn, x in calls:
        if fn.__name__ in _PURE:
            out.append(("ok", _PURE[fn.__name__](x)))  # (running a nested body would memoize its callee)
            continue
        try:
            v = fn.fn(x)
            out.append(("ok", getattr(v, "result", v) if type(v).__name__ == "KeyOverrideResult" else v))
        except Exception as e:  # noqa
            out.append(("exc", (type(e), str(e.args[0]) if e.args else "")))
    return out


def _outcomes(results):
    return [(r[0], r[1]) if r[0] == "ok" else ("exc", (type(r[1]), str(r[1]))) for r in results]


_SEQ = {}  # (store, key, state, nthreads) -> {"steps": N, "cache_states": [...]}


def _sequential_reference(store, key, state, nthreads):
    """Step count of the un-pre-empted generator run, and the cache states every sequential order of the same
    calls leaves (run with the ORIGINAL functions, no twins)."""
    kk = (store, key, state, nthreads)
    if kk in _SEQ:
        return _SEQ[kk]
    import itertools

    states = []
    for order in itertools.permutations(range(nthreads)):
        sb, prog, calls = _prepare(store, key, state, nthreads)
        try:
            trace0 = list(prog.trace)
            for i in order:
                fn, x = calls[i]
                try:
                    fn(x)
                except KeyError:
                    pass
            c = cache_state(getattr(sb.storage(), "_memory_cache", None))
            bodies = sorted(prog.trace)
            deps = [_deps_of(fn, x) if fn.__name__ != "boom" else None for fn, x in calls]
            if c not in [s for s, b in states]:
                states.append((c, bodies))
        finally:
            prog.close()
            sb.close()
    sb, prog, calls = _prepare(store, key, state, nthreads)
    try:
        s = run_threads("G", [_entry(fn, x) for fn, x in calls], [])
        steps = s.steps
    finally:
        prog.close()
        sb.close()
    _SEQ[kk] = {"steps": steps, "cache_states": [s for s, b in states], "bodies": states[0][1], "deps": deps}
    return _SEQ[kk]


def _run_scenario(mode, store, key, state, schedule, nthreads=2, tag="", focus=None):
    """One concurrent run + all checks. Used symbolically (G), natively (G) and for the real-thread replay (H)."""
    ref = _sequential_reference(store, key, state, nthreads)
    sb, prog, calls = _prepare(store, key, state, nthreads)
    gc_was = gc.isenabled()
    gc.disable()
    try:
        entries = [_entry(fn, x) for fn, x in calls]
        want = _expected(calls)  # runs the raw bodies: clear the side-channel trace afterwards
        prog.trace.clear()
        try:
            drv = run_threads(mode, entries, schedule, focus=focus)
        except sched.InfeasibleSchedule:
            return None
        except sched.Deadlock as e:
            check(tag + "no-deadlock", False, str(e))
        except sched.StepLimit as e:
            check(tag + "terminates", False, str(e))
        got = _outcomes(drv.results)
        for i in range(nthreads):
            if want[i][0] == "ok":
                check(tag + "no-internal-error-escapes", got[i][0] == "ok", lambda: (i, repr(drv.results[i][1]), drv.trace[-6:]))
                check(tag + "caller-receives-the-correct-value", got[i] == want[i], lambda: (i, got[i], want[i]))
            else:
                check(tag + "caller-receives-the-function's-own-exception", got[i][0] == "exc" and got[i][1][0] is want[i][1][0]
                      and want[i][1][1] in got[i][1][1], lambda: (i, got[i], want[i]))
        bodies = sorted(prog.trace)
        check(tag + "body-runs-exactly-once-per-distinct-call-not-yet-memoized", bodies == ref["bodies"], lambda: (bodies, ref["bodies"]))
        if mode == "G":
            held = [lk for lk in drv.locks.values() if lk.owner is not None]
            check(tag + "every-lock-released", held == [], len(held))
            for t, d in drv.call_stacks.items():
                cs = d.get("call_stack")
                check(tag + "call-stack-empty-afterwards", cs is None or cs.depth() == 0, t)
        cache = getattr(sb.storage(), "_memory_cache", None)
        check_cache_invariant(cache, tag)
        if cache is not None and key not in NESTED_KEYS:
            cs = cache_state(cache)
            check(tag + "cache-accounting-is-what-a-sequential-execution-leaves", cs in ref["cache_states"], lambda: (cs, ref["cache_states"]))
        elif cache is not None:
            # nested calls: a callee's entry is touched by whichever caller reads it, so the recency ORDER legitimately differs
            # from every sequential order; the accounting (usage, resident entries with their sizes) is compared when nothing
            # had to be evicted, the invariants always
            cs = cache_state(cache)
            if STORES[store] != "fs+cache:small":
                acc = [(c["usage"], c["resident"]) for c in ref["cache_states"]]
                check(tag + "cache-accounting-is-what-a-sequential-execution-leaves", (cs["usage"], cs["resident"]) in acc, lambda: (cs, acc))
        for (fn, x), d_ in zip(calls, ref["deps"]):
            if d_ is not None:
                got_d = _deps_of(fn, x)
                check(tag + "recorded-invocations-of-each-call-are-what-a-sequential-execution-records", got_d == d_, lambda: (fn.__name__, x, got_d, d_))
        # a result, once referenced by a memento, keeps its bytes (also when another call wrote the same override key meanwhile)
        for (fn, x), w_ in zip(calls, want):
            if w_[0] == "ok":
                mem_ = fn.memento(x)
                check(tag + "memento-exists-afterwards", mem_ is not None, (fn.__name__, x))
                got_ = sb.storage().read_result(mem_)
                check(tag + "stored-result-of-each-call-is-its-own", got_ == w_[1], lambda: (fn.__name__, x, repr(got_)[:80], repr(w_[1])[:80]))
        # and everything is memoized now: a further call of each runs no body
        n0 = len(prog.trace)
        for fn, x in dict.fromkeys(calls):
            try:
                fn(x)
            except KeyError:
                pass
        check(tag + "memoized-afterwards", len(prog.trace) == n0, list(prog.trace)[n0:])
        return drv
    finally:
        if gc_was:
            gc.enable()
        prog.close()
        sb.close()


def _valid(store, key, state):
    if STORES[store] in ("memory", "fs") and STATES[state] == "warm-store-cold-cache":
        return False  # no cache: same as warm
    if KEYS[key] in ("different-fns-writing-one-override-key", "different-fns-producing-the-same-bytes") and (
            STORES[store] == "memory" or STATES[state] != "cold"):
        return False  # concurrent WRITES to one key (an override key / one content key): filesystem stores, cold
    if KEYS[key] == "same-call-through-modifier-clones" and STATES[state] != "cold":
        return False
    if key in NESTED_KEYS and STATES[state] == "warm":
        return False
    if key == CROSSWISE:
        return False  # only in C09.lock_sharing, and only when the lock table shares locks between invocations
    return True


SCENARIOS = [(s, k, st) for s in range(len(STORES)) for k in range(len(KEYS)) for st in range(len(STATES)) if _valid(s, k, st)]
# quick tier P=2: the scenarios where the pre-check / cache fill outside the per-call mutex matters most
P2_QUICK = [(2, 0, 1), (3, 1, 0)]


NCHUNK = 8
_LEN = {}


def _steps_of(sc, nthreads, schedule):
    """Number of steps of the run under `schedule` (None if the schedule is not realisable); cached per process."""
    kk = (tuple(sc), nthreads, tuple(schedule))
    if kk not in _LEN:
        store, key, state = sc
        sb, prog, calls = _prepare(store, key, state, nthreads)
        try:
            try:
                drv = run_threads("G", [_entry(fn, x) for fn, x in calls], schedule)
                _LEN[kk] = drv.steps if drv.preemptions_used == len(schedule) else None
            except sched.InfeasibleSchedule:
                _LEN[kk] = None
            except (sched.Deadlock, sched.StepLimit):
                _LEN[kk] = -1  # realisable, and it does not finish: the scenario run reports it
        finally:
            prog.close()
            sb.close()
    return _LEN[kk]


BLOCK = 8  # second pre-emption: steps are handled in blocks of BLOCK consecutive values per solver-chosen cell


def _decode_schedules(sc, nthreads, chunk, j1, j2, t1, t2, P, choose=pick):
    """(chunk, j1, j2, t1, t2) -> list of schedules, with EXACT bounds: the first pre-emption ranges over the steps
    of the un-pre-empted run, the second over the remaining steps of the run with the first one alone (measured by
    a dry run), so the schedules explored are exactly the realisable ones with <= P pre-emptions.
    j1 == 0 (chunk 0) = no pre-emption.  j2 selects a block of BLOCK consecutive second pre-emption steps (the
    first element of block 0 being 'second slot unused'); the block is run in a plain loop."""
    store, key, state = sc
    ref = _sequential_reference(store, key, state, nthreads)
    n1 = ref["steps"]
    cnt1 = len(range(chunk, n1, NCHUNK)) + (1 if chunk == 0 else 0)
    if cnt1 == 0:
        assume(False)
    j1 = choose(j1, cnt1)
    if chunk == 0:
        s1 = -1 if j1 == 0 else (j1 - 1) * NCHUNK
    else:
        s1 = j1 * NCHUNK + chunk
    t1 = choose(t1, nthreads - 1) if nthreads > 2 else 0
    if s1 < 0:
        return [[]]
    first = [(s1, t1)]
    with concrete_region():
        len1 = _steps_of(sc, nthreads, first)
    if len1 is None:
        assume(False)  # not realisable: no other thread can run at that step
    if len1 == -1:
        return [first]  # deadlock / no termination under this schedule: run it, the checks of the run report it
    if P < 2:
        return [first]
    nblocks = (len1 - s1 + BLOCK - 1) // BLOCK
    j2 = choose(j2, nblocks)
    t2 = choose(t2, nthreads - 1) if nthreads > 2 else 0
    out = []
    for off in range(j2 * BLOCK, min((j2 + 1) * BLOCK, len1 - s1)):
        out.append(first if off == 0 else first + [(s1 + off, t2)])
    return out


def _native_choose(v, n):
    if not (0 <= v < n):
        from vp.engine import AssumptionViolated

        raise AssumptionViolated()
    return v


def _replay_real_calls(args, label, nthreads=2, P=2):
    from vp import engine

    install_twins()
    sc = args["sc"]
    try:
        schedules = _decode_schedules(sc, nthreads, args.get("chunk", 0), args.get("j1", 0), args.get("j2", 0), args.get("t1", 0),
                                      args.get("t2", 0), P, choose=_native_choose)
        for schedule in schedules:
            _run_scenario("H", sc[0], sc[1], sc[2], schedule, nthreads)
    except engine.CheckFailed as e:
        return "reproduced on real threads (%s)" % e.label if e.label == label else "real threads fail a different check: %s" % e.label
    except Exception as e:  # noqa - an exception escaping the real code on real threads
        if label == "unexpected-exception":
            return "reproduced on real threads (unexpected exception %s)" % type(e).__name__
        return "real threads raise %s instead of failing %s" % (type(e).__name__, label)
    return "not-reproduced"


def _p1_args(args):
    s = args["j1"] - 1
    if s < 0:
        return dict(args, chunk=0, j1=0)
    chunk = s % NCHUNK
    return dict(args, chunk=chunk, j1=(s // NCHUNK) + (1 if chunk == 0 else 0))


def _calls_body(sc, chunk, j1, j2, P, nthreads=2, t1=0, t2=0):
    store, key, state = sc
    with concrete_region():
        install_twins()
    schedules = _decode_schedules(sc, nthreads, chunk, j1, j2, t1, t2, P)
    with concrete_region():
        ran = 0
        for schedule in schedules:
            drv = _run_scenario("G", store, key, state, schedule, nthreads, tag="")
            if drv is None or drv.preemptions_used != len(schedule):
                continue  # not realisable (no other thread can run at that step)
            ran += 1
            cover("preemptions=%d" % len(schedule))
            if any(t[1] == "blocked" for t in drv.trace):
                cover("a-thread-waited-for-the-per-call-mutex")
            note({"schedule": schedule, "steps": drv.steps})
        engine_count(ran)
        if not ran:
            assume(False)


_CALLS_BOUNDS = ("threads calling memento functions through MementoFunction.call; scenarios {memory, fs, fs + 1 MiB cache, fs + 330-byte cache "
                 "(one value fits, two do not)} x {same call, same function different arguments, different functions, same failing call, different functions writing one override key / producing the same bytes, the same call through modifier clones} x "
                 "{cold, warm store + cold cache, warm}; a pre-emption is possible before every statement (and loop re-test) of the "
                 "instrumented functions (runner_local, MemoryCache, StorageBackendBase, MemoryStorageBackend, CallStack, call entry points); "
                 "everything else (C code, file-system calls, un-instrumented helpers, function bodies) is atomic. Bounds on the pre-emption "
                 "steps are exact (measured by dry runs), so every realisable schedule within the pre-emption bound is executed")


@obligation(
    "C09.calls_p1",
    covers=("preemptions=0", "preemptions=1", "a-thread-waited-for-the-per-call-mutex"),
    split={"sc": SCENARIOS},
    bounds="2 " + _CALLS_BOUNDS + "; EVERY schedule with at most 1 pre-emption, all scenarios",
    variables="choice: j1 (first pre-emption step); scenario partitioned",
    stubs=("CoopLock for threading.RLock / CoopLocal for threading.local between generator twins (violations are replayed on real threads)",),
    budget_s={"quick": 170, "thorough": 900},
    setup=install_twins,
    replay_real=lambda args, label: _replay_real_calls(_p1_args(args), label, 2, 1),
    choice_vars=2,
)
def calls_p1(sc: tuple, j1: int):
    # one job per scenario: all chunks in this job
    with concrete_region():
        install_twins()
        ref = _sequential_reference(sc[0], sc[1], sc[2], 2)
    s = pick(j1, ref["steps"] + 1) - 1
    # re-express (s) in the chunked encoding of _decode_schedule
    if s < 0:
        _calls_body(sc, 0, 0, 0, 1)
    else:
        chunk = s % NCHUNK
        _calls_body(sc, chunk, (s // NCHUNK) + (1 if chunk == 0 else 0), 0, 1)


@obligation(
    "C09.lock_sharing",
    covers=("lock-table-examined",),
    bounds="the runner's per-call lock table is asked for the locks of 1200 invocations (na(x), ni(x), x < 600). If no two share a lock "
           "object, nothing more is to be done (each call's lock is its own; the lock order follows the acyclic call graph). If some do, "
           "two nested calls na(a) -> ni(b), na(c) -> ni(d) that take two shared locks in opposite orders are run on 2 threads (memory "
           "back-end, cold) under EVERY schedule with at most 1 pre-emption: no deadlock, correct values, bodies once",
    variables="choice: j1 (pre-emption step)",
    stubs=("CoopLock / CoopLocal",),
    budget_s={"quick": 120, "thorough": 300},
    setup=install_twins,
    replay_real=lambda args, label: _replay_real_calls(_p1_args(dict(args, sc=(0, CROSSWISE, 0))), label, 2, 1),
    choice_vars=1,
)
def lock_sharing(j1: int):
    with concrete_region():
        install_twins()
        found = _find_shared_locks(_KeepProgram.get())
        cover("lock-table-examined")
        note({"invocations-sharing-a-lock": _SHARED.get("shared"), "crosswise": found})
    if found is None:
        return
    calls_p1((0, CROSSWISE, 0), j1)


@obligation(
    "C09.calls_p2",
    covers=("preemptions=2", "a-thread-waited-for-the-per-call-mutex"),
    split={"sc": P2_QUICK, "chunk": list(range(NCHUNK))},
    tier_split={"thorough": {"sc": SCENARIOS, "chunk": list(range(NCHUNK))}},
    bounds="2 " + _CALLS_BOUNDS + "; EVERY schedule with at most 2 pre-emptions; quick: 2 scenarios (same call warm-store-cold-cache on "
           "fs+1MiB cache; different arguments cold on the 330-byte cache); thorough: all scenarios",
    variables="choice: j1, j2 (pre-emption steps s1 < s2); scenario and s1 mod %d partitioned" % NCHUNK,
    stubs=("CoopLock / CoopLocal",),
    budget_s={"quick": 170, "thorough": 3000},
    setup=install_twins,
    replay_real=lambda args, label: _replay_real_calls(args, label, 2, 2),
    choice_vars=3,
)
def calls_p2(sc: tuple, chunk: int, j1: int, j2: int):
    _calls_body(sc, chunk, j1, j2, 2)


@obligation(
    "C09.calls_3threads",
    covers=("preemptions=2", "a-thread-waited-for-the-per-call-mutex"),
    split={"sc": [(2, 0, 1), (3, 1, 1), (0, 0, 0)], "chunk": list(range(NCHUNK))},
    tiers=("thorough",),
    bounds="3 " + _CALLS_BOUNDS + "; at most 2 pre-emptions with every choice of target thread; scenarios: same call warm-store-cold-cache "
           "(fs+1MiB), different arguments warm-store-cold-cache (330-byte cache), same call cold (memory back-end)",
    variables="choice: j1, j2, t1, t2",
    stubs=("CoopLock / CoopLocal",),
    budget_s={"thorough": 3000},
    setup=install_twins,
    replay_real=lambda args, label: _replay_real_calls(args, label, 3, 2),
    choice_vars=5,
)
def calls_3threads(sc: tuple, chunk: int, j1: int, j2: int, t1: int, t2: int):
    _calls_body(sc, chunk, j1, j2, 2, nthreads=3, t1=t1, t2=t2)


# ------------------------------------------------------------------------------------------------
# cache-only family: two cache operations racing from an arbitrary valid state (data variables)
# ------------------------------------------------------------------------------------------------

CACHE_OPS = ["put-value", "put-memento-only", "read_result", "is_memoized", "get_mementos", "forget_call", "forget_function",
             "forget_everything"]


def _build_cache(r, h, s, budget):
    from collections import deque
    from weakref import WeakValueDictionary
    from twosigma.memento.storage_base import _CacheEntry

    cache = MemoryCache.__new__(MemoryCache)
    cache.__dict__.update(MemoryCache(1).__dict__)  # whatever attributes the constructor sets (e.g. a lock)
    cache.memory_cache_bytes = budget
    cache.memory_usage = 0
    cache.lru_deque = deque()
    cache.cache = dict()
    cache.refs = WeakValueDictionary()
    usage = 0
    vals = [fx.Val("old0"), fx.Val("old1")]
    for i in range(2):
        if r[i]:
            cache.cache[fx.CACHE_KEYS4[i]] = _CacheEntry(s[i], fx.MEMENTOS4[i], vals[i], h[i])
            cache.lru_deque.append(fx.CACHE_KEYS4[i])
            usage = usage + s[i]
    cache.memory_usage = usage
    return cache, vals


def _cache_entry(cache, op, k, newval, sizes):
    name = CACHE_OPS[op]
    ref, x = fx.CALLS4[k]
    if name == "put-value":
        return (cache.put, (fx.NEW_MEMENTOS4[k], newval, True), {})
    if name == "put-memento-only":
        return (cache.put, (fx.NEW_MEMENTOS4[k], None, False), {})
    if name == "read_result":
        return (cache.read_result, (fx.MEMENTOS4[k],), {})
    if name == "is_memoized":
        return (cache.is_memoized, (ref, fx.HASHES4[k]), {})
    if name == "get_mementos":
        return (cache.get_mementos, ([FunctionReferenceWithArgHash(fx.CALLS4[i][0], fx.HASHES4[i]) for i in range(2)],), {})
    if name == "forget_call":
        return (cache.forget_call, (FunctionReferenceWithArgHash(ref, fx.HASHES4[k]),), {})
    if name == "forget_function":
        return (cache.forget_function, (ref,), {})
    return (cache.forget_everything, (), {})


def _full_state(cache, size_tag):
    # sizes are compared by symbolic identity (which variable), not by value: no solver forks at the end of a path;
    # the usage counter is tied to them by the invariant check
    return (list(cache.lru_deque),
            sorted((k, size_tag(e.obj_size), True if e.has_value else False, id(e.value), id(e.memento)) for k, e in cache.cache.items()),
            sorted(cache.refs.keys()))


def _res_key(r):
    if r[0] == "ok":
        v = r[1]
        if isinstance(v, list):
            return ("ok", tuple(id(x) for x in v))
        if isinstance(v, bool) or v is None:
            return ("ok", v)
        return ("ok", id(v))
    return ("exc", type(r[1]).__name__)


def _cache_race(mode, opa, ka, opb, kb, r, h, s, budget, na, nb, schedule):
    install_twins()
    newvals = [fx.Val("newA"), fx.Val("newB")]
    sizes = {id(newvals[0]): na, id(newvals[1]): nb, id(None): 16}

    def size_of(obj):
        return sizes.get(id(obj), 16)

    tags = {id(s[0]): "z0", id(s[1]): "z1", id(na): "na", id(nb): "nb"}

    def size_tag(x):
        return x if type(x) is int else tags.get(id(x), "?")

    orig = MemoryCache._estimate_object_size
    MemoryCache._estimate_object_size = staticmethod(size_of)
    try:
        # the two sequential executions (original functions)
        seq = []
        for order in ((0, 1), (1, 0)):
            c, vals = _build_cache(r, h, s, budget)
            ents = [_cache_entry(c, opa, ka, newvals[0], sizes), _cache_entry(c, opb, kb, newvals[1], sizes)]
            res = [None, None]
            for i in order:
                f, a, k = ents[i]
                try:
                    res[i] = ("ok", f(*a, **k))
                except Exception as e:  # noqa
                    res[i] = ("exc", e)
            seq.append((_full_state(c, size_tag), [_res_key(x) for x in res], vals))
        cache, vals = _build_cache(r, h, s, budget)
        # identities of the pre-state values differ between the three caches: compare modulo that by using the same objects
        ents = [_cache_entry(cache, opa, ka, newvals[0], sizes), _cache_entry(cache, opb, kb, newvals[1], sizes)]
        try:
            drv = run_threads(mode, ents, schedule, max_steps=400, allow_unfired=True)
        except sched.InfeasibleSchedule:
            return None
        except sched.Deadlock as e:
            check("cache-race:no-deadlock", False, str(e))
        for i in range(2):
            rr = drv.results[i]
            if rr[0] == "exc":
                check("cache-race:only-the-documented-KeyError-escapes", isinstance(rr[1], KeyError) and CACHE_OPS[(opa, opb)[i]] == "read_result",
                      lambda: (i, repr(rr[1]), drv.trace[-5:]))
        check_cache_invariant(cache, "cache-race:")

        def norm(state, vs):
            # replace identities of pre-state values by their index
            idmap = {id(v): "old%d" % j for j, v in enumerate(vs)}
            return (state[0], [(k, sz, hv, idmap.get(v, v), mm) for (k, sz, hv, v, mm) in state[1]], state[2])

        got_state = norm(_full_state(cache, size_tag), vals)
        got_res = []
        for x in drv.results:
            kx = _res_key(x)
            got_res.append(kx)
        lin = False
        for (st, rs, vs) in seq:
            idm = {id(v): "old%d" % j for j, v in enumerate(vs)}
            idg = {id(v): "old%d" % j for j, v in enumerate(vals)}
            rs_n = [(a, idm.get(b, b)) if not isinstance(b, tuple) else (a, tuple(idm.get(q, q) for q in b)) for a, b in rs]
            gr_n = [(a, idg.get(b, b)) if not isinstance(b, tuple) else (a, tuple(idg.get(q, q) for q in b)) for a, b in got_res]
            if norm(st, vs) == got_state and rs_n == gr_n:
                lin = True
        check("cache-race:state-and-results-equal-those-of-a-sequential-order", lin,
              lambda: {"got": (got_state, got_res), "sequential": [(norm(st, vs), rs) for st, rs, vs in seq], "trace": drv.trace})
        return drv
    finally:
        MemoryCache._estimate_object_size = orig


def _replay_real_cache(args, label):
    from vp import engine

    a = args
    schedule = [(a["s1"], None)] + ([(a["s2"], None)] if a.get("P", 2) >= 2 else [])
    try:
        _cache_race("H", a["pair"][0], a["ka"], a["pair"][1], a["kb"], [a["r0"], a["r1"]], [a["h0"], a["h1"]], [a["z0"], a["z1"]], a["budget"],
                    a["na"], a["nb"], schedule)
    except engine.CheckFailed as e:
        return "reproduced on real threads (%s)" % e.label if e.label == label else "real threads fail a different check: %s" % e.label
    except Exception as e:  # noqa - an exception escaping the real code on real threads
        if label == "unexpected-exception":
            return "reproduced on real threads (unexpected exception %s)" % type(e).__name__
        return "real threads raise %s instead of failing %s" % (type(e).__name__, label)
    return "not-reproduced"


@obligation(
    "C09.cache_race",
    covers=("preemptions=1", "eviction-during-race"),
    split={"pair": [(0, b) for b in range(len(CACHE_OPS))] + [(1, 1)], "r0": [False, True], "r1": [False, True]},
    tier_split={"thorough": {"pair": [(a, b) for a in range(len(CACHE_OPS)) for b in range(a, len(CACHE_OPS))], "r0": [False, True],
                             "r1": [False, True]}},
    tier_args={"quick": {"P": 1}, "thorough": {"P": 1}},
    bounds="two threads each performing one MemoryCache operation (all 36 unordered pairs of 8 operations, keys f#1/h1, f#1/h2 chosen per thread) from an "
           "ARBITRARY valid cache state over 2 keys (resident / has-value bits, sizes, budget: unbounded non-negative ints, new sizes "
           "likewise); every schedule with at most 1 pre-emption (quick: put-value against each of the 8 operations, and two memento-only puts; thorough: all 36 pairs; two pre-emptions: C09.cache_race_p2) at statement granularity inside the cache methods: invariant afterwards, "
           "only read_result's KeyError escapes, and final state and both return values equal those of one of the two sequential orders",
    variables="data: z0, z1, budget, na, nb (ints), s1, s2 (pre-emption steps); choice: r*, h*, ka, kb",
    stubs=("SizeOracle replaces MemoryCache._estimate_object_size", "CoopLock between generator twins"),
    budget_s={"quick": 400, "thorough": 900},
    setup=install_twins,
    replay_real=_replay_real_cache,
    data_vars=7, choice_vars=6,
)
def cache_race(pair: tuple, ka: bool, kb: bool, r0: bool, r1: bool, h0: bool, h1: bool, z0: int, z1: int, budget: int,
               na: int, nb: int, s1: int, s2: int, P: int):
    opa, opb = pair
    assume(z0 >= 0 and z1 >= 0 and budget >= 0 and na >= 0 and nb >= 0)
    assume(not ka)  # symmetry: the first thread works on key h1, the second on the same or the other key
    ka = 0
    kb = 1 if kb else 0
    r = [True if r0 else False, True if r1 else False]
    usage = (z0 if r[0] else 0) + (z1 if r[1] else 0)
    assume(usage <= budget)
    # resident entries carry a value (memento-only entries arise through the put-memento-only operation)
    if not r[0]:
        assume(not h0 and z0 == 0)
    else:
        assume(h0)
    if not r[1]:
        assume(not h1 and z1 == 0)
    else:
        assume(h1)
    if CACHE_OPS[opa] not in ("put-value",):
        assume(na == 0)
    if CACHE_OPS[opb] not in ("put-value",):
        assume(nb == 0)
    if CACHE_OPS[opa] in ("get_mementos", "forget_everything"):
        assume(ka == 0)
    if CACHE_OPS[opb] in ("get_mementos", "forget_everything"):
        assume(kb == 0)
    # pre-emption slots: s1 < s2 are global step numbers; a slot beyond the end of the run is unused, and the unused
    # slots have ONE representative value each (steps, steps+1) so that no explored path is wasted
    assume(0 <= s1 and s1 < s2)
    if P < 2:
        schedule = [(s1, None)]
    else:
        schedule = [(s1, None), (s2, None)]
    drv = _cache_race("G", opa, ka, opb, kb, r, [h0, h1], [z0, z1], budget, na, nb, schedule)
    if drv is None:
        assume(False)
    nfired = len(schedule) - len(drv.unfired)
    if 0 in drv.unfired:
        assume(s1 == drv.steps)
    if P < 2 or 0 in drv.unfired:
        assume(s2 == s1 + 1)
    elif 1 in drv.unfired:
        assume(s2 == drv.steps)
    if drv.preemptions_used != nfired:
        assume(False)
    schedule = schedule[:nfired]
    cover("preemptions=%d" % len(schedule))
    if usage > 0 and (na + nb) > budget - usage:
        cover("eviction-during-race")


@obligation(
    "C09.cache_race_p2",
    covers=("preemptions=2",),
    split={"pair": [(a, b) for a in range(2) for b in range(a, len(CACHE_OPS))], "r0": [False, True], "r1": [False, True]},
    tiers=("thorough",),
    tier_args={"thorough": {"P": 2}},
    bounds="as C09.cache_race with every schedule of at most 2 symbolic pre-emption steps, for the 15 operation pairs involving a put; "
           "budget 600 s per (pair, resident bits) job - a job that does not exhaust its tree is reported INCONCLUSIVE",
    variables="data: z0, z1, budget, na, nb, s1, s2; choice: h*, ka, kb",
    stubs=("SizeOracle replaces MemoryCache._estimate_object_size", "CoopLock between generator twins"),
    budget_s={"thorough": 600},
    setup=install_twins,
    replay_real=_replay_real_cache,
    expect_inconclusive=True,
    data_vars=7, choice_vars=6,
)
def cache_race_p2(pair: tuple, ka: bool, kb: bool, r0: bool, r1: bool, h0: bool, h1: bool, z0: int, z1: int, budget: int,
                  na: int, nb: int, s1: int, s2: int, P: int):
    cache_race(pair, ka, kb, r0, r1, h0, h1, z0, z1, budget, na, nb, s1, s2, P)


@obligation(
    "C09.mutex_table",
    covers=("held-lock-survives-other-invocations", "clones-share-the-lock"),
    bounds="the per-invocation lock table: while a lock for invocation a is held, looking up the locks of N other invocations "
           "(N in {0, 1, 1500, 5000}; different arguments, another function) and then the lock of a again gives the SAME lock object (single "
           "flight cannot silently lapse once many calls have been made); different invocations get different locks; the same call "
           "made through force_local() / partial() clones gets the same lock",
    variables="choice: N, clone kind",
    budget_s={"quick": 120, "thorough": 300},
    choice_vars=2,
)
def mutex_table(ni: int, ck: int):
    ni = pick(ni, 4)
    ck = pick(ck, 3)
    with concrete_region():
        from twosigma.memento.reference import FunctionReferenceWithArguments as FWA

        N = [0, 1, 1500, 5000][ni]
        sb = Sandbox(kinds="memory")
        prog = _KeepProgram.get()
        try:
            reset_memento_globals()
            a = FWA(prog.f.fn_reference(), (1,), {})
            la = _runner_local._mutex_for_invocation(a)
            got = la.acquire(blocking=False)
            check("fresh-lock-is-free", got, None)
            try:
                for i in range(N):
                    other = FWA((prog.g if i % 2 else prog.f).fn_reference(), (i + 2,), {})
                    lo = _runner_local._mutex_for_invocation(other)
                    if i < 3:
                        check("different-invocations-get-different-locks", lo is not la, i)
                cover("held-lock-survives-other-invocations")
                check("same-invocation-gets-the-same-lock-while-it-is-held", _runner_local._mutex_for_invocation(FWA(prog.f.fn_reference(), (1,), {})) is la, N)
                clone = [prog.f, prog.f.force_local(), prog.f.partial(1)][ck]
                ca = FWA(clone.fn_reference(), () if ck == 2 else (1,), {})
                cover("clones-share-the-lock")
                check("same-call-through-a-modifier-clone-gets-the-same-lock", _runner_local._mutex_for_invocation(ca) is la,
                      (ck, ca.fn_reference.qualified_name, ca.arg_hash, a.arg_hash))
            finally:
                la.release()
        finally:
            sb.close()


@obligation(
    "C09.calls_random_beyond_bound",
    covers=("preemptions>=3",),
    split={"sc": SCENARIOS},
    tiers=("thorough",),
    bounds="BEYOND the pre-emption bound (sampling, not exhaustive): per scenario 150 schedules with 3..8 pre-emptions at steps drawn "
           "from a PRNG seeded by (VERIF_SEED, scenario, sample index); same checks as calls_p1; 2 threads",
    variables="choice: sample index (the schedule is derived from it deterministically)",
    stubs=("CoopLock / CoopLocal",),
    budget_s={"thorough": 900},
    setup=install_twins,
    expect_inconclusive=False,
    choice_vars=1,
)
def calls_random_beyond_bound(sc: tuple, sample: int):
    import random

    sample = pick(sample, 150)
    with concrete_region():
        install_twins()
        store, key, state = sc
        ref = _sequential_reference(store, key, state, 2)
        rnd = random.Random("%s/%s/%d" % (os.environ.get("VERIF_SEED", "0"), list(sc), sample))
        n = rnd.randint(3, 8)
        steps = sorted(rnd.sample(range(max(n, ref["steps"] + 40)), n))
        schedule = [(s_, 0) for s_ in steps]
        # steps beyond the end of the run simply never fire (allowed here: these are samples, not an enumeration)
        sb, prog, calls = _prepare(store, key, state, 2)
        prog.close()
        sb.close()
        drv = _run_scenario_lenient(store, key, state, schedule)
        if drv is not None and drv.preemptions_used >= 3:
            cover("preemptions>=3")
        note({"schedule": schedule})


def _run_scenario_lenient(store, key, state, schedule):
    """_run_scenario with pre-emption slots that may fall beyond the end of the run or onto a thread that cannot be pre-empted"""
    orig = sched.Sched.__init__

    def init(self, entries, schedule_, max_steps=4000, allow_unfired=False):
        orig(self, entries, schedule_, max_steps=max_steps, allow_unfired=True)
        self.lenient = True

    sched.Sched.__init__ = init
    try:
        return _run_scenario("G", store, key, state, schedule, 2)
    finally:
        sched.Sched.__init__ = orig


# ------------------------------------------------------------------------------------------------
# how the threads come into being (real threads in a real child interpreter; validation of the thread-local model)
# ------------------------------------------------------------------------------------------------

THREAD_KINDS = ["threading.Thread", "ThreadPoolExecutor", "asyncio.to_thread", "Thread running copy_context().run", "thread started from inside a running body"]
TK_CHILD = r'''
import sys, json, os, threading, asyncio, contextvars, concurrent.futures
sys.path.insert(0, %(repo)r)
import twosigma.memento as m
from twosigma.memento.storage_filesystem import FilesystemStorageBackend
from twosigma.memento.storage_memory import MemoryStorageBackend
env = m.Environment(name="vp", base_dir=%(root)r, repos=[])
env.default_cluster.storage = FilesystemStorageBackend(path=os.path.join(%(root)r, "store"), memory_cache_mb=1) if %(fs)r else MemoryStorageBackend()
m.Environment.set(env)
KIND, WARM = %(kind)r, %(warm)r
trace, EV = [], {"in_outer": threading.Event(), "other_done": threading.Event()}

@m.memento_function(version="1")
def tk_inner(x):
    trace.append(("tk_inner", x)); return x + 1

@m.memento_function(version="1")
def tk_outer(x):
    trace.append(("tk_outer", x))
    EV["in_outer"].set()
    EV["other_done"].wait(20)      # the other thread's call comes and goes while this body is running
    return tk_inner(x) * 2

@m.memento_function(version="1")
def tk_other(x):
    trace.append(("tk_other", x)); return x * 100

@m.memento_function(version="1")
def tk_warm(x):
    return x

@m.memento_function(version="1")
def tk_spawner(x):
    # a body that starts the two threads itself and waits for them (the threads' calls are NOT calls of this body's thread)
    out = run_two(threading.Thread)
    return repr(out)

def call_outer(out):
    try:
        out["outer"] = ("ok", tk_outer(1))
    except BaseException as e:
        out["outer"] = ("exc", type(e).__name__, str(e)[:200])

def call_other(out):
    EV["in_outer"].wait(20)
    try:
        out["other"] = ("ok", tk_other(2))
    except BaseException as e:
        out["other"] = ("exc", type(e).__name__, str(e)[:200])
    finally:
        EV["other_done"].set()

def run_two(kind):
    out = {}
    if kind is threading.Thread or kind == "threading.Thread":
        ts = [threading.Thread(target=call_outer, args=(out,)), threading.Thread(target=call_other, args=(out,))]
        [t.start() for t in ts]; [t.join(60) for t in ts]
    elif kind == "ThreadPoolExecutor":
        with concurrent.futures.ThreadPoolExecutor(2) as ex:
            fs = [ex.submit(call_outer, out), ex.submit(call_other, out)]
            [f.result(60) for f in fs]
    elif kind == "asyncio.to_thread":
        async def prog():
            await asyncio.gather(asyncio.to_thread(call_outer, out), asyncio.to_thread(call_other, out))
        asyncio.run(prog())
    else:
        ts = [threading.Thread(target=contextvars.copy_context().run, args=(call_outer, out)),
              threading.Thread(target=contextvars.copy_context().run, args=(call_other, out))]
        [t.start() for t in ts]; [t.join(60) for t in ts]
    return out

if WARM:
    tk_warm(0)          # the creating thread has used memento before
if KIND == "thread started from inside a running body":
    res = tk_spawner(0)
    out = eval(res)
else:
    out = run_two(KIND)

def inv(fn, *a):
    mem = fn.memento(*a)
    return None if mem is None else sorted(i.fn_reference.qualified_name.split(":")[-1].split("#")[0] for i in mem.invocation_metadata.invocations)

from twosigma.memento.call_stack import CallStack
print("CHILD-JSON " + json.dumps({"out": out, "trace": sorted(trace), "inv_outer": inv(tk_outer, 1), "inv_other": inv(tk_other, 2),
                                  "inv_spawner": inv(tk_spawner, 0) if KIND.startswith("thread started") else None,
                                  "depth": CallStack.get().depth()}))
'''


@obligation(
    "C09.thread_kinds",
    covers=tuple("kind:" + k for k in THREAD_KINDS) + ("creating-thread-used-memento-before",),
    split={"kind": list(range(len(THREAD_KINDS)))},
    bounds="REAL threads in a real child interpreter (no twins, no scheduler: the overlap is forced by events inside the bodies): two "
           "threads created as threading.Thread / by a ThreadPoolExecutor / by asyncio.to_thread / as Thread(target=copy_context().run) / "
           "from inside a running memento body; thread 1 calls tk_outer(1) (whose body calls tk_inner), thread 2 calls tk_other(2) while "
           "that body is running; the creating thread has used memento before or not; memory and fs+cache: both callers get their "
           "values, nothing escapes, every body runs once, and the recorded invocations of each call are its own (tk_outer: [tk_inner], "
           "tk_other: none, a spawning body: none)",
    variables="choice: thread kind, warm bit, store",
    budget_s={"quick": 170, "thorough": 300},
    choice_vars=3,
)
def thread_kinds(kind: int, warm: bool, fs: bool):
    import json
    import subprocess

    w = True if warm else False
    f_ = True if fs else False
    with concrete_region():
        cover("kind:" + THREAD_KINDS[kind])
        if w:
            cover("creating-thread-used-memento-before")
        sb = Sandbox(kinds="memory")
        try:
            code = TK_CHILD % {"repo": os.environ.get("VP_REPO", "/repo"), "root": sb.root, "fs": f_, "kind": THREAD_KINDS[kind], "warm": w}
            env = dict(os.environ)
            env["MEMENTO_LOG_LEVEL"] = "CRITICAL"
            p = subprocess.run(["/venv/bin/python", "-c", code], capture_output=True, text=True, env=env, timeout=150)
            got = None
            for line in p.stdout.splitlines():
                if line.startswith("CHILD-JSON "):
                    got = json.loads(line[len("CHILD-JSON "):])
            check("child-interpreter-completes", got is not None, p.stderr[-600:])
            check("each-caller-receives-the-correct-value", got["out"].get("outer") == ["ok", 4] and got["out"].get("other") == ["ok", 200], got["out"])
            check("every-body-runs-once", got["trace"] == [["tk_inner", 1], ["tk_other", 2], ["tk_outer", 1]], got["trace"])
            check("recorded-invocations-of-each-call-are-its-own", got["inv_outer"] == ["tk_inner"] and got["inv_other"] == [], (got["inv_outer"], got["inv_other"]))
            if THREAD_KINDS[kind].startswith("thread started"):
                check("calls-made-by-threads-a-body-started-are-not-the-body's-calls", got["inv_spawner"] == [], got["inv_spawner"])
            check("call-stack-empty-afterwards", got["depth"] == 0, got["depth"])
        finally:
            sb.close()


# ------------------------------------------------------------------------------------------------
# deeper pre-emption bound at the points where threads meet in the FILE SYSTEM (content-addressed objects and their link files)
# ------------------------------------------------------------------------------------------------

import linecache  # noqa: E402
import re  # noqa: E402

_FOCUS_FILES = {"BlobStrategy.store": _storage_base.__file__, "_FilesystemDataSource.output": _storage_filesystem.__file__,
                "_FilesystemDataSource._write_non_versioned_link": _storage_filesystem.__file__}
_FOCUS_RE = re.compile(r"exists_nonversioned\(|get_versioned_key\(|with open\(|\.write\(|os\.replace\(|os\.rename\(")


def _fs_focus(tag):
    """a thread is about to execute a statement that looks at / writes a link file of the data source (decided from the source text of
    the current tree: the statements of BlobStrategy.store, _FilesystemDataSource.output and ._write_non_versioned_link that mention
    the existence test, the link read, or an open / write / rename)"""
    if not (isinstance(tag, tuple) and len(tag) == 2 and tag[0] in _FOCUS_FILES):
        return False
    return bool(_FOCUS_RE.search(linecache.getline(_FOCUS_FILES[tag[0]], tag[1])))


FP_SCEN = [(1, 5, 0), (1, 4, 0), (3, 5, 0)]  # fs: different functions producing the same bytes; fs: writing one override key; (thorough) 330-byte cache
FP_CHUNKS = 16
_FP_ALL = {}


def _fp_all(maxf):
    """every schedule with at most 4 pre-emptions at focus arrivals < maxf, each with every choice of the thread that runs instead"""
    if maxf not in _FP_ALL:
        import itertools

        out = [[]]
        for p_ in range(1, 5):
            for fs in itertools.combinations(range(maxf), p_):
                for ks in itertools.product((0, 1), repeat=p_):
                    out.append(list(zip(fs, ks)))
        _FP_ALL[maxf] = out
    return _FP_ALL[maxf]


def _fp_decode(chunk, idx, maxf, choose=pick):
    allp = _fp_all(maxf)
    mine = len(range(chunk, len(allp), FP_CHUNKS))
    idx = choose(idx, mine)
    return allp[chunk + idx * FP_CHUNKS]


def _replay_real_fileproto(args, label):
    from vp import engine

    install_twins()
    sc = tuple(args["sc"])
    schedule = _fp_decode(args["chunk"], args["idx"], args["maxf"], choose=_native_choose)
    try:
        # the same pre-emptions expressed in steps: taken from a generator run under the focus schedule
        sb, prog, calls = _prepare(sc[0], sc[1], sc[2], 3)
        try:
            drv = run_threads("G", [_entry(fn, x) for fn, x in calls], schedule, focus=_fs_focus)
            steps = list(drv.step_schedule)
        finally:
            prog.close()
            sb.close()
        _run_scenario("H", sc[0], sc[1], sc[2], steps, 3)
    except engine.CheckFailed as e:
        return "reproduced on real threads (%s)" % e.label if e.label == label else "real threads fail a different check: %s" % e.label
    except Exception as e:  # noqa
        if label == "unexpected-exception":
            return "reproduced on real threads (unexpected exception %s)" % type(e).__name__
        return "real threads raise %s instead of failing %s" % (type(e).__name__, label)
    return "not-reproduced"


@obligation(
    "C09.file_protocol_p4",
    covers=("preemptions=4", "a-reader-suspended-between-existence-test-and-link-read", "a-writer-suspended-inside-the-link-write"),
    split={"sc": FP_SCEN[:2], "chunk": list(range(FP_CHUNKS))},
    tier_split={"thorough": {"sc": FP_SCEN, "chunk": list(range(FP_CHUNKS))}},
    tier_args={"quick": {"maxf": 10}, "thorough": {"maxf": 12}},
    bounds="3 threads, cold filesystem store: different functions producing the SAME bytes (one content-addressed object and link "
           "file) and different functions writing ONE override key (thorough: also with the 330-byte cache); EVERY schedule with at most "
           "4 pre-emptions placed at the file-system protocol points - a thread about to test the existence of the link, to read it, to "
           "open it for writing, or to write into it (found from the source text of the current tree) - among the first 10 (thorough 12) "
           "arrivals at such points, with every choice of the thread that runs instead (4521 / 9969 schedules per scenario); everything "
           "between two such points runs un-pre-empted (the other shared state is covered at statement granularity by calls_p1 / p2 / "
           "3threads); same checks as calls_p1",
    variables="choice: index into the list of schedules (partitioned into %d chunks)" % FP_CHUNKS,
    stubs=("CoopLock / CoopLocal",),
    budget_s={"quick": 170, "thorough": 900},
    setup=install_twins,
    replay_real=_replay_real_fileproto,
    choice_vars=1,
)
def file_protocol_p4(sc: tuple, chunk: int, idx: int, maxf: int):
    schedule = _fp_decode(chunk, idx, maxf)
    with concrete_region():
        install_twins()
        drv = _run_scenario("G", sc[0], sc[1], sc[2], schedule, 3, focus=_fs_focus)
        if drv is None:
            assume(False)  # not realisable (index beyond the focus arrivals of this run / no other runnable thread)
        cover("preemptions=%d" % len(schedule))
        arr = drv.focus_arrivals
        for (f, k) in schedule:
            line = linecache.getline(_FOCUS_FILES[arr[f][1][0]], arr[f][1][1])
            if "get_versioned_key(" in line:
                cover("a-reader-suspended-between-existence-test-and-link-read")
            if ".write(" in line:
                cover("a-writer-suspended-inside-the-link-write")
        note({"schedule": schedule, "arrivals": len(arr)})
