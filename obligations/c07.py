"""
C07 - result blobs are content-addressed, deduplicated and immutable once referenced.
"""
import hashlib
import os
import pickle
from io import BytesIO

from twosigma.memento.metadata import ResultType
from twosigma.memento.storage_base import DataSource, DefaultCodec
from twosigma.memento.types import DataSourceKey, VersionedDataSourceKey

from vp import storemodel as sm
from vp.engine import assume, check, cover, note, obligation, pick
from vp.memenv import Sandbox, concrete_region

OPS = sm.build_ops(values=("small", "large", "none"), metadata=False)
BACKENDS = ["fs", "fs+meta", "fs+cache:1"]


def scan_content_store(root):
    """returns {hash: [paths of stored objects]} for everything under <root>/c"""
    out = {}
    cdir = os.path.join(root, "c", ".versions")
    if not os.path.isdir(cdir):
        return out
    for uuid in sorted(os.listdir(cdir)):
        d = os.path.join(cdir, uuid)
        for name in sorted(os.listdir(d)):
            if ".meta." in name:
                continue
            out.setdefault(name, []).append(os.path.join(d, name))
    return out


def _history(kind, ops_idx):
    model = sm.Model()
    sb = Sandbox(kinds=kind)
    kept = []  # (call index, value name, memento, still valid?)
    try:
        backend = sb.storage()
        data_root = backend._data_source.base_path
        for step, oi in enumerate(ops_idx):
            op = OPS[oi]
            mem = sm.apply_op(backend, op)
            model.apply(op)
            # a forget operation ends the guarantee for the mementos in its scope
            if op[0] == "forget_call":
                kept = [k for k in kept if k[0] != op[1]]
            elif op[0] == "forget_function":
                q = sm.FNS[op[1]].qualified_name
                kept = [k for k in kept if sm.KEYS[k[0]][0] != q]
            elif op[0] == "forget_everything":
                kept = []
            if mem is not None:
                if any(k[0] == op[1] for k in kept):
                    cover("same-call-memoized-again")
                kept.append((op[1], op[2], mem))
                if op[3] and sm.VALUES[op[2]] is None:
                    cover("null-result-under-an-override-key")
                    check("null-result-has-no-content-key", mem.content_key is None, mem.content_key)
                elif op[3]:
                    cover("key-override")
                    check("override-key-is-used", mem.content_key.key.startswith("ko/"), mem.content_key)
                elif sm.VALUES[op[2]] is not None:
                    data = pickle.dumps(sm.VALUES[op[2]], protocol=5)
                    h = hashlib.sha256(data).hexdigest()
                    check("content-key-derived-from-sha256-of-bytes", mem.content_key.key == "c/" + h, (mem.content_key, h))
                check("content-key-is-versioned", sm.VALUES[op[2]] is None or bool(mem.content_key.version), mem.content_key)
            # ---- integrity scan over the whole content store
            objs = scan_content_store(str(data_root))
            for h, paths in objs.items():
                check("equal-bytes-share-one-stored-object", len(paths) == 1, (h, paths, list(model.history)))
                if len(paths) >= 1 and len({k[1] for k in kept}) > 1:
                    pass
                with open(paths[0], "rb") as f:
                    check("bytes-under-content-key-hash-to-that-key", hashlib.sha256(f.read()).hexdigest() == h, (h, list(model.history)))
            if len({(k[0]) for k in kept if k[1] == "small" and not False}) >= 2:
                cover("two-calls-share-bytes")
            # ---- every memento created earlier and not itself forgotten still reads its original bytes
            for ci, vname, m0 in kept:
                if kind.startswith("fs+cache") and model.entries.get(ci, (None,))[0] != vname:
                    # with a memory cache, reads are keyed by the call, not by the memento: an older memento of a call that
                    # was memoized again is served the newer cached value (outside this obligation, see DESIGN.md C07)
                    continue
                try:
                    val = backend.read_result(m0)
                except Exception as e:  # noqa
                    check("older-memento-still-readable", False, (ci, vname, type(e).__name__, str(e)[:120], list(model.history)))
                check("older-memento-reads-its-original-value", sm.values_equal(val, sm.VALUES[vname]),
                      (ci, vname, repr(val)[:50], list(model.history)))
                if step > 0:
                    cover("older-memento-checked")
    finally:
        sb.close()


@obligation(
    "C07.histories",
    covers=("key-override", "same-call-memoized-again", "two-calls-share-bytes", "older-memento-checked"),
    split={"backend": [0, 1], "o0": list(range(len(OPS)))},
    bounds="all sequences of L=3 operations out of %d (memoize 4 calls x {small, large, None}, a second value, two writes of different calls "
           "to the SAME override key, forget_call x4, forget_function x3, forget_everything) on the filesystem back-end with shared and "
           "separate metadata path; after every step the whole content store is scanned and every memento handed out earlier (and not "
           "itself forgotten) is read again" % len(OPS),
    variables="choice: o0 (per job), o1, o2",
    budget_s={"quick": 170, "thorough": 900},
    choice_vars=3,
)
def histories(o0: int, o1: int, o2: int, backend: int):
    o1 = pick(o1, len(OPS))
    o2 = pick(o2, len(OPS))
    with concrete_region():
        _history(BACKENDS[backend], [o0, o1, o2])


@obligation(
    "C07.histories_l4",
    covers=("key-override", "same-call-memoized-again", "older-memento-checked"),
    split={"backend": [0, 2], "o0": list(range(len(OPS))), "o1": list(range(0, len(OPS), 2))},
    tiers=("thorough",),
    bounds="L=4 on fs and fs + 1 MiB cache, second operation restricted to every other one (thorough)",
    variables="choice: o0..o3",
    budget_s={"thorough": 2400},
    choice_vars=4,
)
def histories_l4(o0: int, o1: int, o2: int, o3: int, backend: int):
    o2 = pick(o2, len(OPS))
    o3 = pick(o3, len(OPS))
    with concrete_region():
        _history(BACKENDS[backend], [o0, o1, o2, o3])


# ------------------------------------------------------------------------------------------------
# the store decision of the blob strategies over a recording data source (symbolic booleans)
# ------------------------------------------------------------------------------------------------


class RecordingSource(DataSource):
    """An exact in-memory versioned object store that records the calls made to it."""

    def __init__(self):
        super().__init__()
        self.objects = {}  # (key, version) -> bytes
        self.links = {}    # key -> version
        self.calls = []
        self.n = 0

    def output(self, key, data):
        self.n += 1
        v = "v%d" % self.n
        self.objects[(key.key, v)] = data.read()
        self.links[key.key] = v
        self.calls.append(("output", key.key))
        return VersionedDataSourceKey(key.key, v)

    def exists_nonversioned(self, key):
        self.calls.append(("exists", key.key))
        return key.key in self.links

    def get_versioned_key(self, key):
        return VersionedDataSourceKey(key.key, self.links[key.key])

    def delete_nonversioned_key(self, key):
        self.calls.append(("delete_link", key.key))
        self.links.pop(key.key, None)

    def input_versioned(self, key):
        return BytesIO(self.objects[(key.key, key.version)])

    def input_nonversioned(self, key):
        return BytesIO(self.objects[(key.key, self.links[key.key])])

    def reference(self, *a):
        pass

    # unused by the strategies under test
    def input_metadata(self, *a): raise NotImplementedError
    def make_url_for_key(self, k): return None
    def output_metadata(self, *a): raise NotImplementedError
    def delete_all_versions(self, *a): raise NotImplementedError
    def exists_versioned(self, k): return (k.key, k.version) in self.objects
    def all_exist_versioned(self, ks): return [self.exists_versioned(k) for k in ks]
    def all_exist_nonversioned(self, ks): return [self.exists_nonversioned(k) for k in ks]
    def list_keys_nonversioned(self, *a, **k): return []


TABLE_VALUES = [5, "five", [1, 2], {"a": None}, b"\x00\x01"]


@obligation(
    "C07.store_table",
    covers=("reused-existing-object", "new-object", "override", "null-result", "partition"),
    split={"vi": list(range(len(TABLE_VALUES)))},
    bounds="real Codec.store -> BlobStrategy / NullStrategy / PicklePartitionStrategy over a recording data source; symbolic booleans: key "
           "override given, an object already stored under the content key, an object already stored under the override key, result is "
           "None, result is a partition; 5 values",
    variables="choice (symbolic bools): override, pre_content, pre_override, is_none, is_partition; value index per job",
    stubs=("RecordingSource: an exact in-memory versioned object store recording output / exists / delete calls",),
    budget_s={"quick": 120, "thorough": 300},
    choice_vars=5,
)
def store_table(override: bool, pre_content: bool, pre_override: bool, is_none: bool, is_partition: bool, vi: int):
    from twosigma.memento.partition import InMemoryPartition

    codec = DefaultCodec({})
    src = RecordingSource()
    value = TABLE_VALUES[vi]
    data = pickle.dumps(value, protocol=5)
    h = "c/" + hashlib.sha256(data).hexdigest()
    ko = "ko/k" if override else None
    if pre_content:
        src.output(DataSourceKey(h), BytesIO(data))
    if pre_override:
        src.output(DataSourceKey("ko/k"), BytesIO(b"previous"))
    src.calls.clear()
    before = dict(src.objects)
    if is_none:
        assume(not is_partition)
        cover("null-result")
        key = codec.store(ResultType.null, src, ko, None)
        check("null-result-stores-nothing", key is None and not any(c[0] == "output" for c in src.calls), src.calls)
        if override:
            check("null-with-override-unlinks-the-override-key", "ko/k" not in src.links, src.links)
        check("content-namespace-untouched", src.objects == before, None)
        return
    if is_partition:
        cover("partition")
        part = InMemoryPartition({"a": value, "b": 1})
        key = codec.store(ResultType.partition, src, ko, part)
        outs = [c[1] for c in src.calls if c[0] == "output"]
        if override:
            check("partition-members-under-the-override-key", all(o.startswith("ko/k/") for o in outs), outs)
        else:
            check("partition-members-content-addressed", all(o.startswith("c/") for o in outs), outs)
            if pre_content:
                check("member-with-existing-content-is-not-written-again", h not in outs, outs)
            for (k, v), b in src.objects.items():
                if k.startswith("c/"):
                    check("bytes-hash-to-key", "c/" + hashlib.sha256(b).hexdigest() == k, k)
        loaded = codec.load(ResultType.partition, src, key)
        check("partition-reads-back", sorted(loaded.list_keys()) == ["a", "b"] and loaded.get("a") == value and loaded.get("b") == 1, None)
        return
    rt = ResultType.from_object(value)
    key = codec.store(rt, src, ko, value)
    outs = [c[1] for c in src.calls if c[0] == "output"]
    if override:
        cover("override")
        check("override-writes-under-the-override-key-only", outs == ["ko/k"] and key.key == "ko/k", (outs, key))
        check("override-gets-a-new-version", key.version not in [v for (k, v) in before if k == "ko/k"], key)
        for (k, v), b in before.items():
            check("existing-objects-untouched", src.objects[(k, v)] == b, k)
    else:
        check("content-key", key.key == h, (key, h))
        if pre_content:
            cover("reused-existing-object")
            check("existing-object-reused-not-rewritten", outs == [] and (key.key, key.version) in before, (outs, key))
        else:
            cover("new-object")
            check("new-object-written-once", outs == [h], outs)
    check("stored-bytes-read-back", codec.load(rt, src, key) == value, None)


# ------------------------------------------------------------------------------------------------
# one store opened under several spellings of its path (another process, a relative path, a symlink)
# ------------------------------------------------------------------------------------------------

SPELLINGS = ["same", "dot-segment", "dotdot-segment", "symlink", "trailing-slash"]


@obligation(
    "C07.path_spellings",
    covers=tuple(SPELLINGS) + ("deduplicated", "read-through-the-other-spelling"),
    bounds="the same store directory opened by two back-end objects under two spellings of its path (identical, with a './' segment, "
           "with an 'x/../' segment, through a symbolic link, with a trailing slash): results with equal bytes written through either "
           "are stored once, every memento written through one spelling is found and read through the other, and the integrity scan holds",
    variables="choice: spelling, value pair, which back-end writes first",
    budget_s={"quick": 120, "thorough": 300},
    choice_vars=3,
)
def path_spellings(sp: int, same_bytes: bool, swap: bool):
    from twosigma.memento.storage_filesystem import FilesystemStorageBackend

    sp = pick(sp, len(SPELLINGS))
    sbts = True if same_bytes else False
    sw = True if swap else False
    with concrete_region():
        sb = Sandbox(kinds="fs")
        try:
            root = os.path.join(sb.root, "store")
            os.makedirs(os.path.join(sb.root, "x"), exist_ok=True)
            alias = {"same": root, "dot-segment": os.path.join(sb.root, ".", "store"), "dotdot-segment": os.path.join(sb.root, "x", "..", "store"),
                     "symlink": os.path.join(sb.root, "link"), "trailing-slash": root + "/"}[SPELLINGS[sp]]
            if SPELLINGS[sp] == "symlink":
                os.makedirs(root, exist_ok=True)
                os.symlink(root, alias)
            cover(SPELLINGS[sp])
            a = FilesystemStorageBackend(path=root)
            b = FilesystemStorageBackend(path=alias)
            first, second = (b, a) if sw else (a, b)
            v1 = "small"
            v2 = "small" if sbts else "other"
            m1 = sm.new_memento(0, sm.VALUES[v1])
            first.memoize(None, m1, sm.VALUES[v1])
            m2 = sm.new_memento(2, sm.VALUES[v2])
            second.memoize(None, m2, sm.VALUES[v2])
            objs = scan_content_store(root)
            for h, paths in objs.items():
                check("equal-bytes-share-one-stored-object", len(paths) == 1, (h, paths))
                with open(paths[0], "rb") as fh:
                    check("object-name-is-the-sha256-of-its-bytes", hashlib.sha256(fh.read()).hexdigest() == h, h)
            if sbts:
                cover("deduplicated")
                check("same-content-key-for-equal-bytes", (m1.content_key.key, m1.content_key.version) == (m2.content_key.key, m2.content_key.version),
                      (m1.content_key, m2.content_key))
            cover("read-through-the-other-spelling")
            for be in (a, b):
                for ci, vn in ((0, v1), (2, v2)):
                    mem = be.get_memento(sm.FWAS[ci].fn_reference_with_arg_hash())
                    check("memento-found-through-either-spelling", mem is not None, (ci, SPELLINGS[sp]))
                    check("value-read-through-either-spelling", sm.values_equal(be.read_result(mem), sm.VALUES[vn]), (ci, vn))
        finally:
            sb.close()
