"""
C01 - memoized results are never stale with respect to code and data changes.
"""
from typing import Union

import twosigma.memento as m
from twosigma.memento import code_hash as ch
from twosigma.memento import memento as mm
from twosigma.memento.code_hash import GlobalVariableHashRule
from twosigma.memento.exception import UndeclaredDependencyError

from vp.coderec import CodeRecord, FnRecord, record_model
from vp.engine import assume, check, cover, note, obligation, pick
from vp.memenv import Program, Sandbox, clear_process_state, concrete_region
from vp.stubs import InterningHashlib

MOD = "vpc01"

# ------------------------------------------------------------------------------------------------
# end-to-end: bounded edit histories on a generated program
# ------------------------------------------------------------------------------------------------

INIT = {"FC": 1, "HC": 1, "GC": 2, "LC": 1, "D": 1, "KW": 1, "G": 1, "GL": 1, "TC": 1, "SE": "z", "GV": None, "EDGE": False, "QC": 1,
        "HID": False, "NC": 1, "GD": 1, "HD": 1, "WH": 1}


def text(st):
    gdeco = "@m.memento_function(version=%r)" % st["GV"] if st["GV"] is not None else "@m.memento_function"
    hidden = " + globals()['q'](x)" if st["HID"] else ""
    edge = " + g(x)" if st["EDGE"] else ""
    return (
        "G = %d\nGL = [%d]\nGD = %d\n\n" % (st["G"], st["GL"], st["GD"])
        + "def hd(x):\n    return x + %d\n\n" % st["HD"]
        + "%s\ndef g(x):\n    return x * %d\n\n" % (gdeco, st["GC"])
        # a memento function with a plain helper, reached by f ONLY through a module-level modifier clone
        + "def wh(x):\n    return x + %d\n\n" % st["WH"]
        + "@m.memento_function\ndef w(x, k=0):\n    return wh(x) + k\n\n"
        + "WC = w.partial(k=2)\n\n"
        + "@m.memento_function\ndef q(x):\n    return x + %d\n\n" % st["QC"]
        # (decoys: nested scopes binding the very names the enclosing function uses from the module - an inner binding must not hide
        #  the outer reference from the dependency analysis)
        + "def h(x, *, k=%d):\n    shadow = lambda G, g, GL: 0\n    return g(x) + G + GL[0] + k + %d\n\n" % (st["KW"], st["HC"])
        + "@m.memento_function\ndef f(x, d=%d):\n" % st["D"]
        + "    _trace.append('f')\n"
        + "    t = (%d, 2)\n" % st["TC"]
        + "    lam = lambda y: y + %d\n" % st["LC"]
        + "    def inner(y, z=%d):\n        h = y\n        return h + z\n" % st["NC"]
        + "    s = 1 if 'p' in {'a', %r} else 0\n" % st["SE"]
        # a module variable and a plain helper that are named ONLY two scopes down (generator expression / comprehension in a lambda)
        + "    deep = lambda y: sum(GD + k for k in (y,)) + [hd(v) for v in (y,)][0]\n"
        + "    return h(x) + d + t[0] + lam(0) + inner(0) + s + deep(0) + WC(x) + %d%s%s\n" % (st["FC"], edge, hidden)
    )


def expected(st, x=1):
    gx = x * st["GC"]
    h = gx + st["G"] + st["GL"] + st["KW"] + st["HC"]
    s = 1 if st["SE"] == "p" else 0
    v = h + st["D"] + st["TC"] + st["LC"] + st["NC"] + s + st["FC"] + st["GD"] + st["HD"] + (x + st["WH"] + 2)
    if st["EDGE"]:
        v += gx
    if st["HID"]:
        v += x + st["QC"]
    return v


# an edit = (name, key, new value, source chunks that have to be re-executed for an in-process delivery)
EDITS = [
    ("body-constant-f", "FC", 2, "f"), ("body-constant-h", "HC", 2, "h"), ("body-constant-g", "GC", 3, "g"),
    ("lambda-constant", "LC", 2, "f"), ("nested-def-default", "NC", 2, "f"), ("default-value", "D", 2, "f"), ("kwonly-default", "KW", 2, "h"),
    ("global-rebind", "G", 2, "G"), ("global-mutate-in-place", "GL", 2, "GL"), ("tuple-constant", "TC", 2, "f"),
    ("set-constant-element", "SE", "p", "f"), ("explicit-version-and-body-of-g", "GV", "2", "g"), ("add-call-edge", "EDGE", True, "f"),
    ("hidden-callee-constant", "QC", 2, "q"),
    ("global-named-two-scopes-down", "GD", 2, "GD"), ("helper-named-two-scopes-down", "HD", 2, "hd"),
    ("helper-of-a-function-reached-through-a-module-level-clone", "WH", 2, "wh"),
]


def _apply(st, edit):
    name, key, val, chunk = edit
    st = dict(st)
    st[key] = val
    if name == "explicit-version-and-body-of-g":
        st["GC"] = st["GC"] + 5
    return st


def _deliver_inprocess(prog, st, edit):
    name, key, val, chunk = edit
    if chunk == "G":
        prog.mod.G = st["G"]
    elif chunk == "GL":
        prog.mod.GL[0] = st["GL"]
    elif chunk == "GD":
        prog.mod.GD = st["GD"]
    else:
        # re-execute only the definition that changed
        full = text(st)
        parts = {}
        cur = None
        buf = []
        for ln in full.split("\n"):
            if ln.startswith("@m.memento_function") or (ln.startswith("def ") and not buf):
                pass
            buf.append(ln)
        # simple splitter: definitions are separated by blank lines
        blocks = full.split("\n\n")
        for b in blocks:
            for nm in ("g", "q", "h", "f", "hd", "wh"):
                if ("def %s(" % nm) in b:
                    parts[nm] = b.strip("\n") + "\n"
        prog.exec(parts[chunk])


STORES = ["memory", "fs", "fs+cache:1"]


def _histories(e1, e2, E, delivery, store, via_clone, gv_explicit, hidden, revert=False):
    st = dict(INIT)
    if gv_explicit:
        st["GV"] = "1"
    st["HID"] = hidden
    sb = Sandbox(kinds=STORES[store])
    prog = Program(MOD)
    try:
        prog.exec(text(st))
        held = prog.f.partial(1) if via_clone else None

        def run():
            try:
                return ("value", held() if held is not None else prog.f(1))
            except UndeclaredDependencyError:
                return ("undeclared", None)

        out = run()
        if hidden:
            cover("hidden-dynamic-call")
            check("initial-run-value-or-undeclared", out == ("undeclared", None) or out == ("value", expected(st)), (out, expected(st)))
        else:
            check("initial-run-correct", out == ("value", expected(st)), (out, expected(st)))
        for k, ei in enumerate([e1, e2][:E]):
            edit = EDITS[ei]
            st = _apply(st, edit)
            if delivery == "in-process":
                _deliver_inprocess(prog, st, edit)
                if via_clone and edit[3] == "f":
                    held = prog.f.partial(1)  # a clone of the previous edition of f is a handle to the old code
            else:
                cover("cross-process")
                clear_process_state()
                prog.fresh().exec(text(st))
                if via_clone:
                    held = prog.f.partial(1)
            n0 = len(prog.trace)
            out = run()
            cover("edit:" + edit[0]) if k == 0 else None
            ok = out == ("value", expected(st)) or (out == ("undeclared", None))
            if not hidden:
                ok = out == ("value", expected(st))
            check("never-stale-after-edit", ok, {"edits": [EDITS[i][0] for i in [e1, e2][:k + 1]], "got": out, "expected": expected(st),
                                                 "delivery": delivery, "via_clone": via_clone})
            if edit[0] != "hidden-callee-constant" or hidden:
                pass
            # an unchanged program must not recompute (guards against "never stale because never memoized")
            n1 = len(prog.trace)
            out2 = run()
            check("second-run-after-edit-is-memoized", len(prog.trace) == n1 and out2 == out, (out, out2))
            if revert and k == E - 1:
                # the edit is taken back (A -> B -> A): the program means what it meant before - and then applied once more
                cover("edit-reverted")
                before = dict(st)
                st_prev = dict(st)
                st_prev[edit[1]] = (INIT[edit[1]] if not (edit[1] == "GV" and gv_explicit) else "1")
                if edit[0] == "explicit-version-and-body-of-g":
                    st_prev["GC"] = st_prev["GC"] - 5
                for target in (st_prev, before):
                    st = dict(target)
                    if delivery == "in-process":
                        _deliver_inprocess(prog, st, edit)
                        if via_clone and edit[3] == "f":
                            held = prog.f.partial(1)
                    else:
                        clear_process_state()
                        prog.fresh().exec(text(st))
                        if via_clone:
                            held = prog.f.partial(1)
                    out = run()
                    ok = out == ("value", expected(st)) or (hidden and out == ("undeclared", None))
                    check("never-stale-after-reverting-or-reapplying-an-edit", ok,
                          {"edit": edit[0], "got": out, "expected": expected(st), "delivery": delivery, "via_clone": via_clone})
    finally:
        prog.close()
        sb.close()


@obligation(
    "C01.edit_histories",
    covers=tuple("edit:" + e[0] for e in EDITS) + ("cross-process", "hidden-dynamic-call", "edit-reverted"),
    split={"delivery": ["in-process", "cross-process"], "store": [0, 1, 2], "via_clone": [False, True]},
    bounds="program f(memento) -> h(plain, kw-only default) -> g(memento), tracked globals G (rebound) and GL (mutated in place), default "
           "value, tuple / set constants, lambda and nested def with default, optional direct edge, optional hidden dynamic call to q; "
           "histories of E edits out of %d kinds (E = 1 quick, 2 thorough), delivered in-process (re-executing only the changed definition / "
           "rebinding / mutating) or cross-process (emulated fresh process on the same store), called directly or through a held "
           "partial() clone; optionally the last edit is then reverted (A -> B -> A) and re-applied; nested scopes of f and h "
           "bind the names of the module-level helpers / variables they use; 3 stores" % len(EDITS),
    variables="choice: e1, e2 (edit kinds), g explicit-version bit, hidden-call bit, revert bit",
    tier_args={"quick": {"E": 1}, "thorough": {"E": 2}},
    budget_s={"quick": 170, "thorough": 1500},
    choice_vars=4,
)
def edit_histories(e1: int, e2: int, gv_explicit: bool, hidden: bool, revert: bool, delivery: str, store: int, via_clone: bool, E: int):
    e1 = pick(e1, len(EDITS))
    if E >= 2:
        e2 = pick(e2, len(EDITS))
        assume(e2 != e1)
    else:
        assume(e2 == 0)
    gx = True if gv_explicit else False
    hd = True if hidden else False
    # the explicit-version edit only makes sense when g starts with an explicit version, and vice versa the body of an
    # explicitly versioned g is - by the documented contract - not tracked
    if EDITS[e1][0] == "explicit-version-and-body-of-g" or (E >= 2 and EDITS[e2][0] == "explicit-version-and-body-of-g"):
        assume(gx)
    if gx:
        assume(EDITS[e1][0] != "body-constant-g")
        if E >= 2:
            assume(EDITS[e2][0] != "body-constant-g")
    rv = True if revert else False
    with concrete_region():
        _histories(e1, e2, E, delivery, store, via_clone, gx, hd, rv)


# ------------------------------------------------------------------------------------------------
# record level: which attributes of a function reach the digest (symbolic fields)
# ------------------------------------------------------------------------------------------------

INT_FIELDS = ["co_argcount", "co_kwonlyargcount", "co_flags", "co_nlocals", "co_stacksize"]


@obligation(
    "C01.field_sensitivity_int",
    covers=("changed",),
    split={"field": INT_FIELDS, "nested": [False, True]},
    bounds="code record; one integer attribute (argcount, kwonlyargcount, flags, nlocals, stacksize) of the function's code object or of "
           "a nested code object takes two symbolic values a, b in [0, 300]: code hash equal iff a == b",
    variables="data: a, b (ints); choice: field, nested",
    stubs=("CodeRecord model of types.CodeType", "InterningDigest replaces hashlib inside code_hash"),
    budget_s={"quick": 120, "thorough": 300},
    data_vars=2, choice_vars=2,
)
def field_sensitivity_int(a: int, b: int, field: str, nested: bool):
    assume(0 <= a <= 300)
    assume(0 <= b <= 300)

    def build(v):
        inner = CodeRecord(**{field: v}) if nested else CodeRecord(co_name="<lambda>")
        outer = CodeRecord(co_consts=(None, inner)) if nested else CodeRecord(**{field: v})
        return FnRecord(outer)

    with record_model():
        h1 = ch.fn_code_hash(build(a))
        h2 = ch.fn_code_hash(build(b))
    if a != b:
        cover("changed")
    check("hash-equal-iff-field-equal", (h1 == h2) == (a == b), (field, a, b))


ConstT = Union[None, bool, int]
STR_CONSTS = ["", "1", "None", "True", "a", "a'b", "1.0"]


@obligation(
    "C01.const_identity",
    covers=("same", "different-type", "different-value"),
    split={"nested": [False, True]},
    bounds="two constants c1, c2 of Union[None, bool, int (unbounded)] or from a catalogue of strings that look like other constants "
           "('1', 'None', 'True', '1.0'): hash equal iff same type and value (guards the repr-based rendering of constants)",
    variables="data: c1, c2; choice: string indices, nested",
    stubs=("CodeRecord model", "InterningDigest"),
    budget_s={"quick": 120, "thorough": 300},
    data_vars=2,
)
def const_identity(c1: ConstT, c2: ConstT, s1: int, s2: int, nested: bool):
    s1 = pick(s1, len(STR_CONSTS) + 1)
    s2 = pick(s2, len(STR_CONSTS) + 1)
    v1 = STR_CONSTS[s1 - 1] if s1 else c1
    v2 = STR_CONSTS[s2 - 1] if s2 else c2
    for v in (v1, v2):
        if isinstance(v, int) and not isinstance(v, bool):
            assume(-300 <= v <= 300)

    def build(v):
        if nested:
            return FnRecord(CodeRecord(co_consts=(None, CodeRecord(co_name="<lambda>", co_consts=(v, 7)))))
        return FnRecord(CodeRecord(co_consts=(None, v, 7)))

    with record_model():
        h1 = ch.fn_code_hash(build(v1))
        h2 = ch.fn_code_hash(build(v2))
    same = type(v1) is type(v2) and v1 == v2
    if same:
        cover("same")
    elif type(v1) is not type(v2):
        cover("different-type")
    else:
        cover("different-value")
    check("hash-equal-iff-constant-equal-in-type-and-value", (h1 == h2) == same, (repr(v1), repr(v2)))


NAME_CAT = ["a", "b", "ab", "_", "a.b"]


@obligation(
    "C01.field_sensitivity_names",
    covers=("changed",),
    split={"field": ["co_names", "co_varnames", "co_freevars", "co_cellvars", "co_name", "co_code"]},
    bounds="name-valued attributes (names, varnames, freevars, cellvars, name) and the bytecode take two values from small catalogues "
           "(strings / byte strings reach json and base64, which are C code): hash equal iff equal",
    variables="choice: i, j (catalogue indices), field",
    stubs=("CodeRecord model", "InterningDigest"),
    budget_s={"quick": 120, "thorough": 300},
    choice_vars=3,
)
def field_sensitivity_names(i: int, j: int, field: str):
    i = pick(i, len(NAME_CAT))
    j = pick(j, len(NAME_CAT))

    def val(k):
        if field == "co_code":
            return [b"\x97\x00", b"\x97\x01", b"\x97\x00\x53\x00", b"", b"\x00"][k]
        if field == "co_name":
            return NAME_CAT[k]
        return ("x", NAME_CAT[k])

    with record_model():
        h1 = ch.fn_code_hash(FnRecord(CodeRecord(**{field: val(i)})))
        h2 = ch.fn_code_hash(FnRecord(CodeRecord(**{field: val(j)})))
    if i != j:
        cover("changed")
    check("hash-equal-iff-field-equal", (h1 == h2) == (i == j), (field, i, j))


DefT = Union[None, bool, int]


@obligation(
    "C01.defaults_sensitivity",
    covers=("changed", "kwdefaults", "defaults"),
    split={"which": ["defaults", "kwdefaults", "second-default"]},
    bounds="function record with __defaults__ / __kwdefaults__ holding a symbolic value (None, bool, int in [-300, 300]) taking two "
           "values: hash equal iff the default values are equal in type and value",
    variables="data: a, b; choice: which",
    stubs=("CodeRecord model", "InterningDigest"),
    budget_s={"quick": 120, "thorough": 300},
    data_vars=2,
)
def defaults_sensitivity(a: DefT, b: DefT, which: str):
    for v in (a, b):
        if isinstance(v, int) and not isinstance(v, bool):
            assume(-300 <= v <= 300)

    def build(v):
        code = CodeRecord(co_argcount=2, co_varnames=("x", "y"))
        if which == "defaults":
            cover("defaults")
            return FnRecord(code, defaults=(v,))
        if which == "second-default":
            return FnRecord(code, defaults=(1, v))
        cover("kwdefaults")
        return FnRecord(code, kwdefaults={"k": v, "j": 0})

    with record_model():
        h1 = ch.fn_code_hash(build(a))
        h2 = ch.fn_code_hash(build(b))
    same = type(a) is type(b) and a == b
    if not same:
        cover("changed")
    check("hash-equal-iff-defaults-equal", (h1 == h2) == same, (which, repr(a), repr(b)))


# ------------------------------------------------------------------------------------------------
# digest over dependency hashes / serialisation of tracked variables
# ------------------------------------------------------------------------------------------------


def _vfn(name):
    def fn(x):
        return x

    fn.__name__ = fn.__qualname__ = name
    fn.__module__ = "vpc01deps"
    return fn


@obligation(
    "C01.version_digest",
    covers=("different-dependency-versions",),
    bounds="real MementoFunction._recompute_version of a function with two memento dependencies carrying symbolic explicit versions "
           "(strings <= 2 chars over {a, b}): two different pairs of dependency versions give different versions",
    variables="data: v1, v2, w1, w2 (strings)",
    stubs=("InterningDigest replaces hashlib inside twosigma.memento.memento (pre-image = concatenation of the update() arguments)",),
    budget_s={"quick": 170, "thorough": 300},
    data_vars=4,
)
def version_digest(v1: str, v2: str, w1: str, w2: str):
    import re

    for s in (v1, v2, w1, w2):
        assume(len(s) <= 2)
        assume(re.fullmatch("[ab]*", s) is not None)
    with concrete_region():
        import sys
        import types

        sb = Sandbox(kinds="memory")
        mod = types.ModuleType("vpc01deps")
        mod.__package__ = ""
        sys.modules["vpc01deps"] = mod
        g1 = m.MementoFunction(_vfn("g1"), version="x", auto_dependencies=False)
        g2 = m.MementoFunction(_vfn("g2"), version="x", auto_dependencies=False)
        mod.g1, mod.g2 = g1, g2
        root = m.MementoFunction(_vfn("root"), auto_dependencies=False, dependencies=[g1, g2])
        mod.root = root
    saved = mm.hashlib
    mm.hashlib = InterningHashlib()
    try:
        g1.explicit_version, g2.explicit_version = v1, v2
        d1 = root._recompute_version()
        g1.explicit_version, g2.explicit_version = w1, w2
        d2 = root._recompute_version()
    finally:
        mm.hashlib = saved
        with concrete_region():
            sys.modules.pop("vpc01deps", None)
            sb.close()
    differ = not (v1 == w1 and v2 == w2)
    if differ:
        cover("different-dependency-versions")
    check("version-differs-when-a-dependency-version-differs", (d1 == d2) == (not differ), (v1, v2, w1, w2))


VarT = Union[None, bool, int]
VAR_STRS = ["", "a", "ab", "1", "None", "true", "é\n"]
CONTAINERS = ["bare", "list", "tuple", "dict", "nested-list", "list-vs-tuple", "bytes", "dict-key"]


@obligation(
    "C01.variable_serialisation",
    covers=("tracked", "different", "same"),
    split={"shape": CONTAINERS},
    bounds="GlobalVariableHashRule._serialize_value on two values a, b (None / bool / int in [-3, 12] symbolic, or strings from a catalogue "
           "of %d incl. look-alikes) bare or in a list / tuple / dict / nested list, as the key of a dict, tuple versus list, and bytes values: the value is "
           "tracked (not None) and the serialisation is injective" % len(VAR_STRS),
    variables="data: a, b; choice: string indices, shape",
    budget_s={"quick": 170, "thorough": 300},
    data_vars=2,
)
def variable_serialisation(a: VarT, b: VarT, sa: int, sb_: int, shape: str):
    sa = pick(sa, len(VAR_STRS) + 1)
    sb_ = pick(sb_, len(VAR_STRS) + 1)
    if shape == "dict-key":
        # a lookup table keyed by None / bool / int, or by strings; one table has keys of one kind ({1: ..} and {"1": ..} are written alike,
        # which is outside this claim)
        assume((sa == 0) == (sb_ == 0))
    a = VAR_STRS[sa - 1] if sa else a
    b = VAR_STRS[sb_ - 1] if sb_ else b
    for v in (a, b):
        if isinstance(v, int) and not isinstance(v, bool):
            assume(-3 <= v <= 12)

    def wrap(v, other=False):
        if shape == "bare":
            return v
        if shape == "list":
            return [v, 1]
        if shape == "tuple":
            return (v, 1)
        if shape == "dict":
            return {"k": v}
        if shape == "nested-list":
            return [[v], []]
        if shape == "dict-key":
            return {v: "x"}
        if shape == "list-vs-tuple":
            return (v,) if other else [v]
        return b"\x00" if other else b"\x01"

    x, y = wrap(a), wrap(b, other=True)
    sx = GlobalVariableHashRule._serialize_value(x)
    sy = GlobalVariableHashRule._serialize_value(y)
    check("supported-value-is-tracked", sx is not None and sy is not None, lambda: (x, y))
    cover("tracked")
    if shape in ("list-vs-tuple", "bytes"):
        same = False
    else:
        same = type(a) is type(b) and a == b
    cover("same" if same else "different")
    check("serialisation-injective", (sx == sy) == same, lambda: (x, y, sx, sy))
