"""
C17 - partitions round-trip key by key and merge as an overlay of their parents.
"""
import pandas as pd

from twosigma.memento.partition import InMemoryPartition
from twosigma.memento.storage_filesystem import OnDiskPartition

from vp.engine import assume, check, cover, note, obligation, pick
from vp.memenv import Program, Sandbox, concrete_region

KEYS = ["a", "b/x", "\u00e9:# "]  # plain, path-like, non-ASCII with the separators of qualified names and content keys
STORES = ["fs", "fs+cache:1", "memory", "fs+cache:0.0005"]
PROVENANCE = ["fresh", "disk", "cache"]
STAGING = ["InMemoryPartition", "OnDiskPartition", "InMemoryPartition(defaultdict)", "OnDiskPartition(keys-reassigned)"]
# the third: an in-memory partition whose results mapping is a collections.defaultdict - a mapping for which `key in d` and `d[key]`
# disagree on absent keys (a parent-only key must still come from the parent, and reading must not invent entries)


def value_for(level, key):
    if level == 1 and key == KEYS[1]:
        return None
    if level == 0 and key == KEYS[2]:
        return pd.DataFrame({"k": [1, 2], "lvl": [level, level]})
    return "%s@%d" % (key, level)


def eq(a, b):
    if isinstance(a, pd.DataFrame) or isinstance(b, pd.DataFrame):
        return isinstance(a, pd.DataFrame) and isinstance(b, pd.DataFrame) and a.equals(b)
    return type(a) is type(b) and a == b


SRC = (
    "MASKS = [0, 0, 0]\n"
    "STAGING = ['InMemoryPartition']\n"
    "OVERRIDE = [False]\n"
    "def _ret(level, r):\n"
    "    # optionally hand the partition back under a caller-chosen storage key\n"
    "    return KeyOverrideResult(r, 'ov/level%d' % level) if OVERRIDE[0] else r\n"
    "def _mk(level):\n"
    "    items = {k: value_for(level, k) for i, k in enumerate(KEYS) if MASKS[level] & (1 << i)}\n"
    "    if STAGING[0] == 'InMemoryPartition':\n"
    "        return InMemoryPartition(items)\n"
    "    if STAGING[0] == 'InMemoryPartition(defaultdict)':\n"
    "        import collections\n"
    "        dd = collections.defaultdict(lambda: 'INVENTED')\n"
    "        dd.update(items)\n"
    "        return InMemoryPartition(dd)\n"
    "    p = OnDiskPartition()\n"
    "    if STAGING[0] == 'OnDiskPartition(keys-reassigned)' and items:\n"
    "        # every key first holds the value the first key keeps; all other keys are then assigned their own values\n"
    "        first = list(items)[0]\n"
    "        for k in items:\n"
    "            p[k] = items[first]\n"
    "        for k, v in items.items():\n"
    "            if k != first:\n"
    "                p[k] = v\n"
    "        return p\n"
    "    for k, v in items.items():\n"
    "        p[k] = v\n"
    "    return p\n"
    "@m.memento_function(version='1')\n"
    "def p0():\n"
    "    _trace.append('p0')\n"
    "    return _ret(0, _mk(0))\n"
    "@m.memento_function(version='1')\n"
    "def p1():\n"
    "    _trace.append('p1')\n"
    "    r = _mk(1)\n"
    "    r._merge_parent = p0()\n"
    "    return _ret(1, r)\n"
    "@m.memento_function(version='1')\n"
    "def p2():\n"
    "    _trace.append('p2')\n"
    "    r = _mk(2)\n"
    "    r._merge_parent = p1()\n"
    "    return _ret(2, r)\n"
    "TOP = [None]\n"
    "@m.memento_function(version='1')\n"
    "def passthrough():\n"
    "    _trace.append('passthrough')\n"
    "    return TOP[0]()\n"
)


def overlay(masks, upto):
    out = {}
    for level in range(upto + 1):
        for i, k in enumerate(KEYS):
            if masks[level] & (1 << i):
                out[k] = value_for(level, k)
    return out


def contents(p):
    return {k: p.get(k) for k in p.list_keys()}


def same_contents(a, b):
    return sorted(a.keys()) == sorted(b.keys()) and all(eq(a[k], b[k]) for k in a)


def _prepare_parent(prog, sb, fn, prov, store):
    """bring the parent call into the requested provenance state before the child runs"""
    if prov == "fresh":
        return  # parent not memoized: it is computed inside the child's body
    fn()
    cache = getattr(sb.storage(), "_memory_cache", None)
    if prov == "disk":
        if cache is not None:
            cache.forget_everything()
    # prov == 'cache': leave the memory cache as it is (only meaningful for cached stores)


def _run(K, masks, provs, staging, store, override=False):
    kind = STORES[store]
    sb = Sandbox(kinds=kind)
    prog = Program("vpc17")
    try:
        d = prog.mod.__dict__
        d.update(InMemoryPartition=InMemoryPartition, OnDiskPartition=OnDiskPartition, KEYS=KEYS, value_for=value_for)
        from twosigma.memento.result import KeyOverrideResult

        d["KeyOverrideResult"] = KeyOverrideResult
        prog.exec(SRC)
        prog.MASKS[:] = masks
        prog.STAGING[0] = staging
        prog.OVERRIDE[0] = override
        if override:
            cover("key-override")
        fns = [prog.p0, prog.p1, prog.p2]
        # level 0 .. K-1 are parents; prepare provenance bottom-up
        for level in range(K):
            _prepare_parent(prog, sb, fns[level], provs[level], store)
        top = fns[K]
        n0 = len(prog.trace)
        first = top()
        expect = overlay(masks, K)
        check("returned-partition-is-the-overlay", same_contents(contents(first), expect), (sorted(contents(first)), sorted(expect)))
        own = sorted(k for i, k in enumerate(KEYS) if masks[K] & (1 << i))
        check("own-keys-listing", sorted(first.list_keys(_include_merge_parent=False)) == own, (list(first.list_keys(_include_merge_parent=False)), own))
        n1 = len(prog.trace)
        second = top()
        check("child-is-memoized-second-call-runs-no-body", len(prog.trace) == n1, list(prog.trace)[n1:])
        check("read-back-partition-is-the-overlay", same_contents(contents(second), expect), (sorted(contents(second)), sorted(expect)))
        for k in expect:
            check("each-key-loadable-on-its-own", eq(second.get(k), expect[k]), k)
        # from disk (drop the memory cache, if any)
        cache = getattr(sb.storage(), "_memory_cache", None)
        if cache is not None:
            cache.forget_everything()
            third = top()
            check("from-disk-runs-no-body", len(prog.trace) == n1, list(prog.trace)[n1:])
            check("from-disk-partition-is-the-overlay", same_contents(contents(third), expect), (sorted(contents(third)), sorted(expect)))
            if kind != "memory":
                check("from-disk-own-keys-listing", sorted(third.list_keys(_include_merge_parent=False)) == own, None)
        # the object handed back by the first call remains usable after memoization
        check("first-returned-object-still-usable", same_contents(contents(first), expect), None)
    finally:
        prog.close()
        sb.close()


def _run_passthrough(K, masks, provs, top_prov, staging, store):
    """A memento function that returns, unchanged, the partition it obtained from another memento function (freshly computed inside,
    read back from disk, or served from the memory cache): its own stored result has the same keys and values."""
    kind = STORES[store]
    sb = Sandbox(kinds=kind)
    prog = Program("vpc17")
    try:
        d = prog.mod.__dict__
        d.update(InMemoryPartition=InMemoryPartition, OnDiskPartition=OnDiskPartition, KEYS=KEYS, value_for=value_for)
        from twosigma.memento.result import KeyOverrideResult

        d["KeyOverrideResult"] = KeyOverrideResult
        prog.exec(SRC)
        prog.MASKS[:] = masks
        prog.STAGING[0] = staging
        fns = [prog.p0, prog.p1, prog.p2]
        for level in range(K):
            _prepare_parent(prog, sb, fns[level], provs[level], store)
        prog.TOP[0] = fns[K]
        _prepare_parent(prog, sb, fns[K], top_prov, store)
        expect = overlay(masks, K)
        first = prog.passthrough()
        check("passthrough:returned-partition-is-the-overlay", same_contents(contents(first), expect), (sorted(contents(first)), sorted(expect)))
        n1 = len(prog.trace)
        second = prog.passthrough()
        check("passthrough:memoized", len(prog.trace) == n1, list(prog.trace)[n1:])
        check("passthrough:read-back-has-the-same-keys-and-values", same_contents(contents(second), expect),
              (sorted(contents(second)), sorted(expect)))
        cache = getattr(sb.storage(), "_memory_cache", None)
        if cache is not None:
            cache.forget_everything()
            third = prog.passthrough()
            check("passthrough:from-disk-has-the-same-keys-and-values", same_contents(contents(third), expect),
                  (sorted(contents(third)), sorted(expect)))
        for k in expect:
            check("passthrough:each-key-loadable-on-its-own", eq(second.get(k), expect[k]), k)
        check("passthrough:first-returned-object-still-usable", same_contents(contents(first), expect), None)
    finally:
        prog.close()
        sb.close()


@obligation(
    "C17.passthrough",
    covers=("returned-from-disk", "returned-from-cache", "returned-fresh", "merged", "unmerged"),
    split={"store": [0, 1, 2], "staging": [0, 1], "K": [0, 1]},
    bounds="a memento function returning unchanged the partition produced by another one (chain length 0 or 1, all presence masks, parent "
           "provenance {fresh, disk, cache}) which it obtained {freshly computed inside its own body, read back from disk, from the memory "
           "cache}; staging {in-memory, on-disk}; stores {fs, fs+cache, memory}: what it stores reads back with the same keys and values",
    variables="choice: masks, parent provenance, provenance of the returned partition, staging, store",
    budget_s={"quick": 170, "thorough": 600},
    choice_vars=6,
)
def passthrough(m0: int, m1: int, pv0: int, tp: int, K: int, staging: int, store: int):
    m0 = pick(m0, 8)
    tp = pick(tp, 3)
    if K >= 1:
        m1 = pick(m1, 8)
        pv0 = pick(pv0, 3)
    else:
        assume(m1 == 0 and pv0 == 0)
    with concrete_region():
        cached_store = STORES[store].startswith("fs+cache")
        if (PROVENANCE[pv0] == "cache" or PROVENANCE[tp] == "cache") and not cached_store:
            assume(False)
        cover("returned-from-" + PROVENANCE[tp] if PROVENANCE[tp] != "fresh" else "returned-fresh")
        cover("merged" if K >= 1 else "unmerged")
        _run_passthrough(K, [m0, m1, 0], [PROVENANCE[pv0], "disk"], PROVENANCE[tp], STAGING[staging], store)


@obligation(
    "C17.chains",
    covers=("chain-0", "chain-1", "parent-fresh", "parent-disk", "parent-cache", "own-key-wins", "parent-only-key", "ondisk-staging", "empty-level",
            "key-override"),
    split={"store": [0, 1, 2], "staging": [0, 1, 2, 3], "K": [0, 1]},
    bounds="key alphabet {'a', 'b/x', 'é:# '}; merge chains of length K = 0..1 (thorough 2); every presence mask per level (8 each); parent provenance "
           "{computed inside the child = fresh in-memory object, read back from disk, served from the memory cache}; staging partition "
           "{InMemoryPartition, OnDiskPartition, InMemoryPartition over a defaultdict, OnDiskPartition whose keys are assigned twice (all first share one value)}; values incl. None and a DataFrame; returned plainly or under a key override (KeyOverrideResult); stores {fs, "
           "fs+cache, memory}",
    variables="choice: masks (3 bits per level), provenance per level, staging, store",
    budget_s={"quick": 170, "thorough": 900},
    choice_vars=5,
)
def chains(m0: int, m1: int, pv0: int, override: bool, K: int, staging: int, store: int):
    ov = True if override else False
    m0 = pick(m0, 8)
    if K >= 1:
        m1 = pick(m1, 8)
        pv0 = pick(pv0, 3)
    else:
        assume(m1 == 0 and pv0 == 0)
    with concrete_region():
        masks = [m0, m1, 0]
        cover("chain-%d" % K)
        if K >= 1:
            cover("parent-" + PROVENANCE[pv0])
            if m0 & m1:
                cover("own-key-wins")
            if m0 & ~m1:
                cover("parent-only-key")
        if staging in (1, 3):
            cover("ondisk-staging")
        if m0 == 0 or (K >= 1 and m1 == 0):
            cover("empty-level")
        if PROVENANCE[pv0] == "cache" and not STORES[store].startswith("fs+cache"):
            assume(False)
        if ov and STORES[store] == "memory":
            assume(False)  # key overrides are a notion of stores with storage keys
        _run(K, masks, [PROVENANCE[pv0], "disk"], STAGING[staging], store, ov)


@obligation(
    "C17.chains_k2",
    covers=("parent-fresh", "parent-disk", "parent-cache"),
    split={"pv0": [0, 1, 2], "pv1": [0, 1, 2]},
    tier_split={"quick": {"store": [0, 1], "staging": [0, 1]}, "thorough": {"store": [0, 1, 3], "staging": [0, 1, 2]}},
    bounds="chains of length 2: all 8^3 presence masks x provenance of both parents x staging (quick: in-memory and on-disk) x {fs, fs+cache 1 MiB; "
           "thorough also fs+cache 512 B}",
    variables="choice: masks, provenances",
    budget_s={"quick": 400, "thorough": 1500},
    choice_vars=5,
)
def chains_k2(m0: int, m1: int, m2: int, pv0: int, pv1: int, staging: int, store: int):
    m0 = pick(m0, 8)
    m1 = pick(m1, 8)
    m2 = pick(m2, 8)
    with concrete_region():
        for pv in (pv0, pv1):
            cover("parent-" + PROVENANCE[pv])
            if PROVENANCE[pv] == "cache" and not STORES[store].startswith("fs+cache"):
                assume(False)
        _run(2, [m0, m1, m2], [PROVENANCE[pv0], PROVENANCE[pv1]], STAGING[staging], store)
