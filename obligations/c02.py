"""
C02 - memoization is transparent: same outcome, body runs once per distinct call.
"""
import datetime
import os
from typing import Union

import numpy as np
import pandas as pd

import twosigma.memento as m
from twosigma.memento.exception import MementoException, NonMemoizedException, RemoteCallException
from twosigma.memento.metadata import ResultType
from twosigma.memento.partition import InMemoryPartition
from twosigma.memento.storage import StorageBackend

from vp import fixtures as fx
from vp.engine import assume, check, cover, note, obligation, pick
from vp.memenv import Program, Sandbox, concrete_region

Val = Union[None, bool, int, float, str, bytes]


# ------------------------------------------------------------------------------------------------
# classification of symbolic values
# ------------------------------------------------------------------------------------------------


@obligation(
    "C02.classify",
    covers=("null", "boolean", "number", "string", "binary", "list", "dict"),
    split={"wrap": ["bare", "list", "dict"]},
    bounds="v: Union[None,bool,int,float,str,bytes] (unbounded ints, strings/bytes of length <= 2), bare or as the element of a list / value of a dict",
    variables="data: v; choice: wrap",
    budget_s={"quick": 120, "thorough": 300},
    data_vars=1, choice_vars=1,
)
def classify(v: Val, wrap: str):
    if isinstance(v, (str, bytes)):
        assume(len(v) <= 2)
    if wrap == "list":
        cover("list")
        check("list", ResultType.from_object([v]) is ResultType.list_result, None)
        return
    if wrap == "dict":
        cover("dict")
        check("dict", ResultType.from_object({"k": v}) is ResultType.dictionary, None)
        return
    rt = ResultType.from_object(v)
    if v is None:
        cover("null")
        check("null", rt is ResultType.null, rt)
    elif isinstance(v, bool):
        cover("boolean")
        check("bool-before-number", rt is ResultType.boolean, rt)
    elif isinstance(v, (int, float)):
        cover("number")
        check("number", rt is ResultType.number, rt)
    elif isinstance(v, str):
        cover("string")
        check("string", rt is ResultType.string, rt)
    else:
        cover("binary")
        check("bytes-is-binary-not-string", rt is ResultType.binary, rt)


# ------------------------------------------------------------------------------------------------
# the runner's decision table over a stub store (symbolic booleans)
# ------------------------------------------------------------------------------------------------


class StubStore(StorageBackend):
    """An exact one-entry store whose answers are decided by (symbolic) booleans."""

    def __init__(self, bits, stored_value, stored_memento_factory):
        super().__init__("stub", config={})
        self.b = bits
        self.stored_value = stored_value
        self.factory = stored_memento_factory
        self.lookups = 0
        self.memoized = []
        self.reads = 0
        self.log = []

    def get_mementos(self, fns):
        self.lookups += 1
        self.log.append("get_mementos#%d" % self.lookups)
        bit = self.b["present_bulk"] if self.lookups == 1 else self.b["present_inlock"]
        out = []
        for f in fns:
            if bit:
                out.append(self.factory(f))
            else:
                out.append(None)
        return out

    def read_result(self, memento):
        self.reads += 1
        self.log.append("read_result")
        if self.b["read_raises"]:
            raise IOError("injected read failure")
        return self.stored_value

    def is_memoized(self, fn_reference, arg_hash):
        self.log.append("is_memoized")
        return True if self.b["memoized_meanwhile"] else False

    def memoize(self, key_override, memento, result):
        self.log.append("memoize")
        self.memoized.append((key_override, memento, result))
        if self.b["memoize_raises"]:
            raise IOError("injected write failure")

    def make_url_for_result(self, memento):
        return None

    def read_metadata(self, *a, **k):
        return None

    def write_metadata(self, *a, **k):
        pass

    def is_all_memoized(self, fns):
        return False

    def list_functions(self):
        return []

    def list_mementos(self, fn, limit=None):
        return []

    def forget_call(self, f):
        pass

    def forget_everything(self):
        pass

    def forget_function(self, f):
        pass

    def to_dict(self):
        return {"type": "stub"}


class _BodyError(ValueError):
    pass


_BODY = {"n": 0, "outcome": 0}


def _table_fn(x):
    _BODY["n"] += 1
    o = _BODY["outcome"]
    if o == 1:
        raise _BodyError("boom")
    if o == 2:
        raise NonMemoizedException("not to be memoized")
    if o == 3:
        raise RemoteCallException([])
    return x + 100


_table_fn.__module__ = fx.MOD_NAME
_table_fn.__qualname__ = _table_fn.__name__ = "table_fn"
TABLE_FN = m.MementoFunction(_table_fn, version="1", auto_dependencies=False, cluster_name="stubcluster")
setattr(fx.mod, "table_fn", TABLE_FN)
_BodyError.__module__ = fx.MOD_NAME
_BodyError.__qualname__ = "_BodyError"
setattr(fx.mod, "_BodyError", _BodyError)


@obligation(
    "C02.runner_table",
    covers=("served-from-store", "computed", "lost-race", "write-failed", "read-failed-recomputed", "stored-exception-replayed", "ignored"),
    split={"outcome": [0, 1, 2, 3], "stored_is_exception": [False, True]},
    bounds="one call through MementoFunction.call -> memento_run_batch -> LocalRunnerBackend.batch_run -> memento_run_local -> "
           "process_existing_memento over a stub store; 8 symbolic booleans (present at bulk pre-check, present at in-lock re-check, read "
           "raises IOError, memoized meanwhile, memoize raises IOError, ignore_result, force_local, stored value is an exception) x 4 body outcomes",
    variables="choice (symbolic bools decided by z3, branched on inside the real runner and the stub): 7; fixed per job: body outcome, stored kind",
    stubs=("StubStore: an exact one-entry StorageBackend whose answers are symbolic booleans",),
    budget_s={"quick": 170, "thorough": 600},
    choice_vars=7,
)
def runner_table(present_bulk: bool, present_inlock: bool, read_raises: bool, memoized_meanwhile: bool, memoize_raises: bool,
                 ignore_result: bool, force_local: bool, outcome: int, stored_is_exception: bool):
    from twosigma.memento.call_stack import CallStack
    from twosigma.memento import runner_local

    bits = dict(present_bulk=present_bulk, present_inlock=present_inlock, read_raises=read_raises,
                memoized_meanwhile=memoized_meanwhile, memoize_raises=memoize_raises)
    stored_value = MementoException("python::%s:_BodyError" % fx.MOD_NAME, "stored boom", "trace") if stored_is_exception else 777

    def factory(f):
        return fx.make_memento(f.fn_reference, 5, ResultType.exception if stored_is_exception else ResultType.number)

    store = StubStore(bits, stored_value, factory)
    with concrete_region():
        sb = Sandbox(clusters={})
        cluster = m.FunctionCluster(name="stubcluster", storage=store, runner=m.RunnerBackend.create("local", {}))
        sb.env.repos[0].clusters["stubcluster"] = cluster
    try:
        _BODY["n"] = 0
        _BODY["outcome"] = outcome
        fn = TABLE_FN
        if ignore_result:
            fn = fn.ignore_result()
        if force_local:
            fn = fn.force_local()
        raised = None
        result = None
        try:
            result = fn(5)
        except BaseException as e:  # noqa - we classify below
            if not isinstance(e, Exception):
                raise
            raised = e
        ig = True if ignore_result else False
        # ---- oracle, written from the documentation of the runner
        seen_bulk = True if present_bulk else False
        readable = not read_raises
        served = False
        if seen_bulk and (ig or readable):
            served = True
        elif (True if present_inlock else False) and (ig or readable):
            served = True
        body = _BODY["n"]
        if served:
            cover("served-from-store")
            check("body-not-run-when-a-readable-memento-exists", body == 0, body)
            check("nothing-memoized-when-served", len(store.memoized) == 0, store.log)
            if ig:
                cover("ignored")
                check("ignored-result-is-None", raised is None and result is None, (repr(result), repr(raised)))
            elif stored_is_exception:
                cover("stored-exception-replayed")
                check("stored-exception-raised-as-original-class", isinstance(raised, _BodyError) and "stored boom" in str(raised), repr(raised))
            else:
                check("stored-value-returned", raised is None and result == 777, (repr(result), repr(raised)))
        else:
            cover("computed")
            if seen_bulk or present_inlock:
                cover("read-failed-recomputed")
            check("body-runs-exactly-once", body == 1, body)
            memoizable = outcome in (0, 1)
            if memoizable and not memoized_meanwhile:
                check("computed-result-memoized-once", len(store.memoized) == 1, store.log)
                ko, mem, res = store.memoized[0]
                check("recorded-result-type-matches-value", mem.invocation_metadata.result_type is ResultType.from_object(res), None)
                if outcome == 0:
                    check("memoized-value", res == 105 and mem.invocation_metadata.result_type is ResultType.number, repr(res))
                else:
                    check("memoized-exception", isinstance(res, MementoException) and res.message == "boom"
                          and mem.invocation_metadata.result_type is ResultType.exception, repr(res))
                if memoize_raises:
                    cover("write-failed")
            else:
                if memoizable:
                    cover("lost-race")
                check("not-memoized", len(store.memoized) == 0, store.log)
            if outcome == 0:
                if ig:
                    check("ignore_result-returns-None", raised is None and result is None, (repr(result), repr(raised)))
                else:
                    check("computed-value-returned-even-if-write-failed", raised is None and result == 105, (repr(result), repr(raised)))
            elif outcome == 1:
                check("body-exception-propagates-with-its-class", type(raised) is _BodyError and str(raised) == "boom", repr(raised))
            elif outcome == 2:
                check("non-memoized-exception-propagates", type(raised) is NonMemoizedException, repr(raised))
            else:
                check("remote-call-exception-propagates", type(raised) is RemoteCallException, repr(raised))
        check("call-stack-empty-afterwards", CallStack.get().depth() == 0, CallStack.get().depth())
    finally:
        with concrete_region():
            sb.close()


# ------------------------------------------------------------------------------------------------
# function-level round trips over a catalogue of result values
# ------------------------------------------------------------------------------------------------

UTC = datetime.timezone.utc


def _values():
    df = pd.DataFrame({"a": [1, 2, 3], "b": ["x", "y", None]})
    return [
        ("None", None), ("True", True), ("False", False), ("0", 0), ("1", 1), ("1.0", 1.0), ("big", 2**80), ("nan", float("nan")),
        ("inf", float("-inf")), ("empty-str", ""), ("str", "hé\n"), ("empty-bytes", b""), ("bytes", b"\x00\xff"),
        ("date", datetime.date(2020, 1, 1)), ("midnight", datetime.datetime(2020, 1, 1)), ("aware", datetime.datetime(2020, 1, 1, 1, 2, 3, 4, tzinfo=UTC)),
        ("pd-timestamp", pd.Timestamp("2020-01-01T00:00:00")),
        ("empty-list", []), ("list", [1, "a", None, [2.5], {"k": b"v"}]), ("empty-dict", {}), ("dict", {"a": 1, "b": [True], "c": {"d": None}}),
        ("arr-bool", np.array([True, False])), ("arr-i8", np.array([1, -1], dtype=np.int8)), ("arr-i16", np.array([1], dtype=np.int16)),
        ("arr-i32", np.array([], dtype=np.int32)), ("arr-i64", np.array([[1, 2], [3, 4]], dtype=np.int64)),
        ("arr-f32", np.array([1.5], dtype=np.float32)), ("arr-f64", np.array([np.nan, 1.0])),
        ("index", pd.Index([1, 2, 3])), ("series", pd.Series([1.0, None], index=["a", "b"])), ("frame", df), ("empty-frame", pd.DataFrame()),
        ("partition", "PARTITION"), ("big-frame", pd.DataFrame({"a": np.arange(20000)})),
    ]


VALUES = _values()
EXPECTED_TYPE = {
    "None": "null", "True": "boolean", "False": "boolean", "0": "number", "1": "number", "1.0": "number", "big": "number", "nan": "number",
    "inf": "number", "empty-str": "string", "str": "string", "empty-bytes": "binary", "bytes": "binary", "date": "date", "midnight": "timestamp",
    "aware": "timestamp", "pd-timestamp": "timestamp", "empty-list": "list_result", "list": "list_result", "empty-dict": "dictionary",
    "dict": "dictionary", "arr-bool": "array_boolean", "arr-i8": "array_int8", "arr-i16": "array_int16", "arr-i32": "array_int32",
    "arr-i64": "array_int64", "arr-f32": "array_float32", "arr-f64": "array_float64", "index": "index", "series": "series", "frame": "data_frame",
    "empty-frame": "data_frame", "partition": "partition", "big-frame": "data_frame",
}


def equal_typed(a, b):
    if type(a) is not type(b):
        return False
    if isinstance(a, float):
        return a == b or (a != a and b != b)
    if isinstance(a, np.ndarray):
        return a.dtype == b.dtype and a.shape == b.shape and np.array_equal(a, b, equal_nan=a.dtype.kind == "f")
    if isinstance(a, pd.DataFrame):
        return a.equals(b) and list(a.dtypes) == list(b.dtypes)
    if isinstance(a, (pd.Series, pd.Index)):
        return a.equals(b)
    if isinstance(a, list):
        return len(a) == len(b) and all(equal_typed(x, y) for x, y in zip(a, b))
    if isinstance(a, dict):
        return list(a.keys()) == list(b.keys()) and all(equal_typed(a[k], b[k]) for k in a)
    return a == b


def partition_contents(p):
    return {k: p.get(k) for k in p.list_keys()}


STORES = ["memory", "fs", "fs+cache:0.004", "fs+cache:1"]
MODS = ["none", "ignore_result", "force_local"]


@obligation(
    "C02.roundtrip",
    covers=("memory", "fs", "cache-small", "cache-large", "partition", "oversize-for-cache"),
    split={"store": [0, 1, 2, 3], "vi0": [0, 9, 18, 27]},
    bounds="%d representative result values (every documented type; True/1/1.0; empty str/bytes/list/dict; NaN; non-ASCII; date vs "
           "midnight datetime vs pd.Timestamp; every array dtype, empty and 2-d; index/series/frames; partition; a frame larger than the 4 KiB "
           "cache) x {memory, fs, fs+cache 4 KiB, fs+cache 1 MiB} x {none, ignore_result, force_local} with the script call, call, "
           "memento(), forget, call, then forget_all / forget_cluster / forget_everything / forget each followed by call, read of the stored "
           "value, call" % len(VALUES),
    variables="choice: value index, store, modifier",
    budget_s={"quick": 170, "thorough": 600},
    choice_vars=3,
)
def roundtrip(vi: int, mod: int, store: int, vi0: int):
    vi = vi0 + pick(vi, 9)
    assume(vi < len(VALUES))
    mod = pick(mod, len(MODS))
    with concrete_region():
        name, value = VALUES[vi]
        kind = STORES[store]
        cover({0: "memory", 1: "fs", 2: "cache-small", 3: "cache-large"}[store])
        sb = Sandbox(kinds=kind)
        prog = Program("vpc02")
        try:
            prog.mod.__dict__["InMemoryPartition"] = InMemoryPartition
            prog.mod.__dict__["_VALUE"] = [value]
            prog.exec(
                "@m.memento_function(version='1')\n"
                "def f(x):\n"
                "    _trace.append(x)\n"
                "    v = _VALUE[0]\n"
                "    if isinstance(v, str) and v == 'PARTITION':\n"
                "        return InMemoryPartition({'a': 1, 'b': [1, 2], 'c': None})\n"
                "    return v\n"
            )
            f = prog.f
            g = {"none": f, "ignore_result": f.ignore_result(), "force_local": f.force_local()}[MODS[mod]]
            is_part = name == "partition"
            if is_part:
                cover("partition")
            if name == "big-frame" and store == 2:
                cover("oversize-for-cache")
            unmemoized = f.fn(1)
            r1 = g(1)
            check("first-call-runs-body-once", len(prog.trace) == 2, len(prog.trace))  # 1 for the direct call above
            r2 = g(1)
            check("second-call-does-not-run-body", len(prog.trace) == 2, len(prog.trace))
            r3 = f(1)
            check("unmodified-call-is-a-hit-too", len(prog.trace) == 2, len(prog.trace))
            if MODS[mod] == "ignore_result":
                check("ignore_result-returns-None", r1 is None and r2 is None, (repr(r1), repr(r2)))
            else:
                for label, r in (("first", r1), ("second", r2)):
                    if is_part:
                        check(label + "-call-partition-usable-and-equal", equal_typed(partition_contents(r), partition_contents(unmemoized)),
                              None)
                    else:
                        check(label + "-call-value-equal-in-type-and-value", equal_typed(r, unmemoized), (name, repr(r)[:100]))
            if is_part:
                check("stored-value-read-back-equal", equal_typed(partition_contents(r3), partition_contents(unmemoized)), None)
            else:
                check("stored-value-read-back-equal", equal_typed(r3, unmemoized), (name, repr(r3)[:100]))
            mem = f.memento(1)
            check("memento-exists", mem is not None, None)
            check("recorded-result-type", mem.invocation_metadata.result_type.name == EXPECTED_TYPE[name],
                  (name, mem.invocation_metadata.result_type.name))
            back = sb.storage().read_result(mem)
            check("recorded-type-matches-value-read-back", ResultType.from_object(back) is mem.invocation_metadata.result_type, None)
            f.forget(1)
            check("forgotten", f.memento(1) is None, None)
            g(1)
            check("forget-makes-exactly-that-call-run-again", len(prog.trace) == 3, len(prog.trace))
            g(1)
            check("and-memoized-again", len(prog.trace) == 3, len(prog.trace))
            # every way of forgetting, each followed by a fresh computation of the same bytes and a read of what the store now holds
            n = 3
            for how in ("forget_all", "forget_cluster", "forget_everything", "forget"):
                if how == "forget_all":
                    f.forget_all()
                elif how == "forget_cluster":
                    m.forget_cluster(f.cluster_name)
                elif how == "forget_everything":
                    sb.storage().forget_everything()
                else:
                    f.forget(1)
                check("forgotten-by-" + how, f.memento(1) is None, None)
                g(1)
                n += 1
                check(how + "-makes-the-call-run-again", len(prog.trace) == n, len(prog.trace))
                mem2 = f.memento(1)
                check(how + "-then-memoized-again", mem2 is not None, None)
                back2 = sb.storage().read_result(mem2)
                if is_part:
                    check(how + "-then-stored-value-readable-and-equal", equal_typed(partition_contents(back2), partition_contents(unmemoized)), None)
                else:
                    check(how + "-then-stored-value-readable-and-equal", equal_typed(back2, unmemoized), (name, repr(back2)[:100]))
                r4 = f(1)
                check(how + "-then-hit", len(prog.trace) == n, len(prog.trace))
                if not is_part:
                    check(how + "-then-hit-value-equal", equal_typed(r4, unmemoized), (name, repr(r4)[:100]))
        finally:
            prog.close()
            sb.close()


# ------------------------------------------------------------------------------------------------
# exceptions
# ------------------------------------------------------------------------------------------------

EXC_KINDS = ["builtin", "user-message-ctor", "user-two-arg-ctor", "user-no-arg-ctor", "local-class", "unimportable-module", "non-memoized",
             "non-memoized-subclass", "nested-class", "class-of-a-module-the-replaying-process-has-not-imported"]


@obligation(
    "C02.exceptions",
    covers=("rebuilt-same-class", "fallback-memento-exception", "never-recorded"),
    split={"store": [0, 1, 3]},
    bounds="10 exception kinds (builtin, user classes with 1-arg / 2-arg / 0-arg constructors, class local to a function, class in a module "
           "that cannot be imported, NonMemoizedException and a subclass, nested class, class of an importable module that the body imports "
           "lazily and that is absent from sys.modules when the exception is replayed - as in a second process) x 5 messages (empty, plain, with ':' and newline, "
           "non-ASCII, with a lone surrogate) x {memory, fs, fs+cache}",
    variables="choice: kind, message, store",
    budget_s={"quick": 170, "thorough": 600},
    choice_vars=3,
)
def exceptions(kind: int, mi: int, store: int):
    kind = pick(kind, len(EXC_KINDS))
    mi = pick(mi, 5)
    with concrete_region():
        # (the last one: a lone surrogate, as produced by os.fsdecode for a file name that is not valid UTF-8)
        msg = ["", "plain", "a: b\nc::d", "hé世", "no such file: caf\udce9.txt"][mi]
        sb = Sandbox(kinds=STORES[store])
        prog = Program("vpc02x")
        try:
            prog.mod.__dict__["NonMemoizedException"] = NonMemoizedException
            prog.mod.__dict__["_MSG"] = [msg]
            prog.exec(
                "class UserError(Exception):\n    pass\n\n"
                "class TwoArg(Exception):\n    def __init__(self, a, b):\n        super().__init__(a + b)\n\n"
                "class NoArg(Exception):\n    def __init__(self):\n        super().__init__('fixed')\n\n"
                "class Sub(NonMemoizedException):\n    pass\n\n"
                "class Outer:\n    class Inner(Exception):\n        pass\n\n"
                "def make_local():\n    class Local(Exception):\n        pass\n    return Local\n\n"
                "def make_foreign():\n    E = type('Foreign', (Exception,), {})\n    E.__module__ = 'no.such.module'\n    return E\n\n"
                "_KIND = [0]\n"
                "@m.memento_function(version='1')\n"
                "def f(x):\n"
                "    _trace.append(x)\n"
                "    k, msg = _KIND[0], _MSG[0]\n"
                "    if k == 0: raise ValueError(msg)\n"
                "    if k == 1: raise UserError(msg)\n"
                "    if k == 2: raise TwoArg(msg, '!')\n"
                "    if k == 3: raise NoArg()\n"
                "    if k == 4: raise make_local()(msg)\n"
                "    if k == 5: raise make_foreign()(msg)\n"
                "    if k == 6: raise NonMemoizedException(msg)\n"
                "    if k == 7: raise Sub(msg)\n"
                "    if k == 9:\n"
                "        import vpc02lazy\n"
                "        raise vpc02lazy.LazyError(msg)\n"
                "    raise Outer.Inner(msg)\n"
            )
            import sys as _sys

            with open(os.path.join(sb.root, "vpc02lazy.py"), "w") as fh:
                fh.write("class LazyError(Exception):\n    pass\n")
            _sys.path.insert(0, sb.root)
            _sys.modules.pop("vpc02lazy", None)
            prog._KIND[0] = kind
            f = prog.f

            def call():
                try:
                    f(1)
                except Exception as e:  # noqa
                    return e
                return None

            e1 = call()
            check("first-call-raises", e1 is not None, None)
            n1 = len(prog.trace)
            name = EXC_KINDS[kind]
            if name.startswith("class-of-a-module"):
                # the replaying process has not imported the module (the body, which would, does not run)
                _sys.modules.pop("vpc02lazy", None)
                import importlib

                importlib.invalidate_caches()
            e2 = call()
            if name.startswith("non-memoized"):
                cover("never-recorded")
                check("non-memoized-exception-not-recorded", f.memento(1) is None, None)
                check("body-runs-again", len(prog.trace) == n1 + 1, len(prog.trace))
                check("same-class-again", type(e2) is type(e1), repr(e2))
                return
            check("second-call-does-not-run-body", len(prog.trace) == n1, len(prog.trace))
            mem = f.memento(1)
            check("recorded-as-exception", mem is not None and mem.invocation_metadata.result_type is ResultType.exception, None)
            expect_msg = "fixed" if name == "user-no-arg-ctor" else (msg + "!" if name == "user-two-arg-ctor" else msg)
            rebuildable = name in ("builtin", "user-message-ctor", "nested-class")
            if name.startswith("class-of-a-module"):
                cover("rebuilt-same-class")
                check("replayed-with-the-class-of-the-importable-module", (type(e2).__module__, type(e2).__qualname__) == ("vpc02lazy", "LazyError"),
                      (type(e2).__module__, type(e2).__qualname__))
            elif rebuildable:
                cover("rebuilt-same-class")
                check("replayed-with-same-class", type(e2) is type(e1), (repr(type(e2)), repr(type(e1))))
            else:
                cover("fallback-memento-exception")
                check("replayed-as-MementoException", isinstance(e2, MementoException), repr(e2)[:300])
            check("original-message-preserved", expect_msg in str(e2), (expect_msg, str(e2)[:200]))
            f.forget(1)
            call()
            check("forget-makes-it-run-again", len(prog.trace) == n1 + 1, len(prog.trace))
        finally:
            import sys as _sys2

            if sb.root in _sys2.path:
                _sys2.path.remove(sb.root)
            _sys2.modules.pop("vpc02lazy", None)
            prog.close()
            sb.close()


# ------------------------------------------------------------------------------------------------
# several exception classes replayed in one process (class identity must not depend on what was replayed before)
# ------------------------------------------------------------------------------------------------

_EXC_MOD_A = (
    "class Error(Exception):\n    pass\n\n"
    "class ValueError(Exception):\n    '''same name as the builtin'''\n\n"
    "class Outer:\n    class Error(Exception):\n        pass\n\n"
    "_KIND = [0]\n"
    "@m.memento_function(version='1')\n"
    "def fa(x):\n"
    "    _trace.append(('fa', x))\n"
    "    k = _KIND[0]\n"
    "    if k == 0: raise Error('from a')\n"
    "    if k == 1: raise ValueError('user value error')\n"
    "    if k == 2: raise Outer.Error('nested')\n"
    "    raise KeyError('builtin')\n"
)
_EXC_MOD_B = (
    "import builtins\n"
    "class Error(Exception):\n    pass\n\n"
    "_KIND = [0]\n"
    "@m.memento_function(version='1')\n"
    "def fb(x):\n"
    "    _trace.append(('fb', x))\n"
    "    k = _KIND[0]\n"
    "    if k == 0: raise Error('from b')\n"
    "    if k == 1: raise builtins.ValueError('builtin value error')\n"
    "    if k == 2: raise Error('from b, vs nested')\n"
    "    raise LookupError('other builtin')\n"
)


@obligation(
    "C02.exception_pairs",
    covers=("same-name-different-module", "same-name-as-builtin", "nested-vs-toplevel"),
    split={"store": [0, 1, 3]},
    bounds="two functions in two modules raising classes that share a name (module-level Error in both; a user class named ValueError vs the "
           "builtin; nested Outer.Error vs top-level Error; two builtins as control) x both replay orders x {memory, fs, fs+cache}: each "
           "replay raises exactly the class its own function raised, whatever was replayed before in the same process",
    variables="choice: pair kind, replay order, store",
    budget_s={"quick": 120, "thorough": 300},
    choice_vars=3,
)
def exception_pairs(kind: int, order: bool, store: int):
    kind = pick(kind, 4)
    b_first = True if order else False
    with concrete_region():
        sb = Sandbox(kinds=STORES[store])
        pa, pb = Program("vpc02xa"), Program("vpc02xb")
        try:
            pa.exec(_EXC_MOD_A)
            pb.exec(_EXC_MOD_B)
            pa._KIND[0] = kind
            pb._KIND[0] = kind
            cover(["same-name-different-module", "same-name-as-builtin", "nested-vs-toplevel", "same-name-different-module"][kind])

            def call(fn):
                try:
                    fn(1)
                except Exception as e:  # noqa
                    return e
                return None

            first = {"fa": call(pa.fa), "fb": call(pb.fb)}
            check("first-calls-raise", first["fa"] is not None and first["fb"] is not None, None)
            n = len(pa.trace) + len(pb.trace)
            for name in (("fb", "fa") if b_first else ("fa", "fb")) * 2:
                e = call(pa.fa if name == "fa" else pb.fb)
                check("replayed-with-the-class-its-own-function-raised", type(e) is type(first[name]),
                      (name, repr(type(e)), repr(type(first[name]))))
                check("replayed-message", str(first[name].args[0]) in str(e), (name, str(e)[:200]))
            check("replays-run-no-body", len(pa.trace) + len(pb.trace) == n, None)
        finally:
            pa.close()
            pb.close()
            sb.close()
