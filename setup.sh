#!/bin/bash
# Offline bootstrap: overlay venv on /venv with crosshair-tool (+ z3-solver) from the local wheelhouse.
set -e
cd "$(dirname "$0")"
VENV=/verif/.venv
if [ -x "$VENV/bin/python" ] && "$VENV/bin/python" -c "import crosshair, z3, pandas" 2>/dev/null; then
  echo "setup: $VENV already usable"; exit 0
fi
exec 9>/verif/.venv.lock
flock 9
if [ -x "$VENV/bin/python" ] && "$VENV/bin/python" -c "import crosshair, z3, pandas" 2>/dev/null; then
  echo "setup: $VENV already usable"; exit 0
fi
rm -rf "$VENV"
/venv/bin/python -m venv "$VENV"
SP=$("$VENV/bin/python" -c "import sysconfig; print(sysconfig.get_paths()['purelib'])")
echo "import site; site.addsitedir('/venv/lib/python3.12/site-packages')" > "$SP/_verif_overlay.pth"
PIP_NO_INDEX=1 "$VENV/bin/pip" install -q --no-index --find-links /opt/veriftools/wheels crosshair-tool
"$VENV/bin/python" -c "import crosshair, z3, pandas; print('setup: ok, crosshair', crosshair.__version__ if hasattr(crosshair,'__version__') else '', 'z3', z3.get_version_string())"
