"""
Generatoriser (DESIGN.md 3.5): compiles, from the *current source* of chosen functions of
twosigma/memento, step-wise twins so that a thread schedule can be a variable of the check.

Two back-ends share one AST transformation:

  G  generator twin      a `yield (qualname, lineno)` before every statement (and before every loop
                         re-test); every call `f(a..)` becomes `yield from _vp_call(f, a..)`, which runs
                         the twin of f if one is registered (bound methods, static methods, callables
                         with a registered __call__) and calls f atomically otherwise; `with <lock>:`
                         becomes a cooperative acquire loop.  Logical threads are generators driven by
                         vp.sched.Sched in one OS thread.
  H  hooked twin         same insertion points, but `_vp_hook(tag)` / plain calls / non-blocking
                         acquire loop on the REAL lock; run by real threading.Threads under
                         vp.sched.RealThreads, which grants one step at a time - the replayer.

Granularity: statement boundaries of the instrumented functions; calls inside comprehensions,
lambdas and nested functions, un-instrumented helpers and C code are atomic.
The originals are untouched.
"""
import ast
import copy
import inspect
import textwrap
import types

HELPERS = {}  # name -> object, injected into the globals of instrumented modules
REG = {"G": {}, "H": {}}  # original function object -> twin
_INJECTED = []  # (globals dict, name)


class Refused(Exception):
    pass


class _TagCmYields(ast.NodeTransformer):
    """In the G twin of a @contextmanager generator the generator's own `yield v` becomes `yield ("__cm__", v)` so that the
    driver can tell it from the ticks."""

    def visit_FunctionDef(self, node):
        if getattr(self, "_in", False):
            return node
        self._in = True
        self.generic_visit(node)
        return node

    def visit_Lambda(self, node):
        return node

    def visit_Yield(self, node):
        v = node.value if node.value is not None else ast.Constant(None)
        return ast.copy_location(ast.Yield(ast.Tuple([ast.Constant("__cm__"), v], ast.Load())), node)


class _Tx(ast.NodeTransformer):
    def __init__(self, mode, qualname, line_offset):
        self.mode = mode
        self.qualname = qualname
        self.off = line_offset
        self.depth = 0
        self.n = 0
        self.ticks = 0

    # ---- scopes we do not descend into
    def visit_Lambda(self, node):
        return node

    visit_ListComp = visit_SetComp = visit_DictComp = visit_GeneratorExp = visit_Lambda

    def visit_ClassDef(self, node):
        return node

    def visit_AsyncFunctionDef(self, node):
        return node

    def visit_FunctionDef(self, node):
        if self.depth > 0:
            return node
        self.depth += 1
        node.decorator_list = []
        body = node.body
        if body and isinstance(body[0], ast.Expr) and isinstance(getattr(body[0], "value", None), ast.Constant) \
                and isinstance(body[0].value.value, str):
            body = body[1:] or [ast.Pass()]
        node.body = self._block(body)
        if self.mode == "G" and not self._has_yield(node):
            node.body.insert(0, self._tick(node.lineno))
        self.depth -= 1
        return node

    @staticmethod
    def _has_yield(node):
        return any(isinstance(n, (ast.Yield, ast.YieldFrom)) for n in ast.walk(node))

    # ---- statements
    def _tick(self, lineno, kind="stmt"):
        self.ticks += 1
        tag = ast.Constant((self.qualname, lineno + self.off))
        if self.mode == "G":
            e = ast.Expr(ast.Yield(tag))
        else:
            e = ast.Expr(ast.Call(ast.Name("_vp_hook_" + self.mode, ast.Load()), [tag], []))
        return ast.copy_location(e, ast.Pass(lineno=lineno, col_offset=0))

    def _block(self, stmts, loop_header=None):
        out = []
        for s in stmts:
            if isinstance(s, (ast.Global, ast.Nonlocal)):
                out.append(s)
                continue
            out.append(self._tick(s.lineno))
            r = self.visit(s)
            if isinstance(r, list):
                out.extend(r)
            else:
                out.append(r)
        if loop_header is not None:
            out.append(self._tick(loop_header, "retest"))
        return out

    def visit_While(self, node):
        node.test = self.visit(node.test)
        node.body = self._block(node.body, loop_header=node.lineno)
        node.orelse = self._block(node.orelse) if node.orelse else []
        return node

    def visit_For(self, node):
        node.iter = self.visit(node.iter)
        node.body = self._block(node.body, loop_header=node.lineno)
        node.orelse = self._block(node.orelse) if node.orelse else []
        return node

    def visit_If(self, node):
        node.test = self.visit(node.test)
        node.body = self._block(node.body)
        node.orelse = self._block(node.orelse) if node.orelse else []
        return node

    def visit_Try(self, node):
        node.body = self._block(node.body)
        for h in node.handlers:
            h.body = self._block(h.body)
        node.orelse = self._block(node.orelse) if node.orelse else []
        node.finalbody = self._block(node.finalbody) if node.finalbody else []
        return node

    def visit_With(self, node):
        # nest multi-item withs
        if len(node.items) > 1:
            inner = ast.With(items=node.items[1:], body=node.body)
            ast.copy_location(inner, node)
            node = ast.With(items=node.items[:1], body=[inner])
            ast.copy_location(node, inner)
        item = node.items[0]
        self.n += 1
        cm = "_vp_cm_%d" % self.n
        expr = self.visit(item.context_expr)
        body_src = node.body
        lock_body = self._block(copy.deepcopy(body_src))
        plain_body = self._block(copy.deepcopy(body_src))
        cm_body = self._block(copy.deepcopy(body_src)) if self.mode == "G" else None
        assign = ast.Assign([ast.Name(cm, ast.Store())], expr)
        cmload = ast.Name(cm, ast.Load())
        if self.mode == "G":
            acq = ast.Expr(ast.YieldFrom(ast.Call(ast.Name("_vp_acquire_" + self.mode, ast.Load()), [cmload], [])))
        else:
            acq = ast.Expr(ast.Call(ast.Name("_vp_acquire_" + self.mode, ast.Load()), [cmload], []))
        rel = ast.Expr(ast.Call(ast.Name("_vp_release_" + self.mode, ast.Load()), [cmload], []))
        if item.optional_vars is not None:
            lock_body.insert(0, ast.Assign([copy.deepcopy(item.optional_vars)], ast.Constant(True)))
        locked = [acq, ast.Try(body=lock_body, handlers=[], orelse=[], finalbody=[rel])]
        plain = ast.With(items=[ast.withitem(context_expr=cmload, optional_vars=item.optional_vars)], body=plain_body)
        test = ast.Call(ast.Name("_vp_is_lock_" + self.mode, ast.Load()), [cmload], [])
        orelse = [plain]
        if self.mode == "G":
            # a twinned @contextmanager: enter / exit are driven step by step
            #   v = yield from cm.enter()
            #   try: body
            #   except BaseException as e: if not (yield from cm.exit(e)): raise
            #   else: yield from cm.exit(None)
            exc = "_vp_exc_%d" % self.n
            enter = ast.YieldFrom(ast.Call(ast.Attribute(cmload, "enter", ast.Load()), [], []))
            if item.optional_vars is not None:
                enter_stmt = ast.Assign([copy.deepcopy(item.optional_vars)], enter)
            else:
                enter_stmt = ast.Expr(enter)
            exit_exc = ast.YieldFrom(ast.Call(ast.Attribute(cmload, "exit", ast.Load()), [ast.Name(exc, ast.Load())], []))
            exit_ok = ast.Expr(ast.YieldFrom(ast.Call(ast.Attribute(cmload, "exit", ast.Load()), [ast.Constant(None)], [])))
            flag = "_vp_exited_%d" % self.n
            set_flag = ast.Assign([ast.Name(flag, ast.Store())], ast.Constant(True))
            handler = ast.ExceptHandler(type=ast.Name("BaseException", ast.Load()), name=exc,
                                        body=[set_flag, ast.If(test=ast.UnaryOp(ast.Not(), exit_exc), body=[ast.Raise()], orelse=[])])
            # `finally` (not `else`): the body may leave through return / break / continue
            cm_try = ast.Try(body=cm_body, handlers=[handler], orelse=[],
                             finalbody=[ast.If(test=ast.UnaryOp(ast.Not(), ast.Name(flag, ast.Load())), body=[exit_ok], orelse=[])])
            enter_stmt = [ast.Assign([ast.Name(flag, ast.Store())], ast.Constant(False)), enter_stmt]
            cm_test = ast.Call(ast.Name("_vp_is_cmtwin_G", ast.Load()), [cmload], [])
            orelse = [ast.If(test=cm_test, body=enter_stmt + [cm_try], orelse=[plain])]
        ifnode = ast.If(test=test, body=locked, orelse=orelse)
        out = [assign, ifnode]
        for o in out:
            ast.copy_location(o, node)
            ast.fix_missing_locations(o)
        return out

    # ---- calls
    def visit_Call(self, node):
        self.generic_visit(node)
        if isinstance(node.func, ast.Name) and node.func.id in ("super", "isinstance", "len", "hasattr", "getattr", "str", "enumerate",
                                                                  "range", "list", "dict", "set", "tuple", "type", "bool", "int", "id"):
            return node  # builtins: never twinned; saves generator frames
        call = ast.Call(ast.Name("_vp_call_" + self.mode, ast.Load()), [node.func] + node.args, node.keywords)
        if self.mode == "G":
            new = ast.YieldFrom(call)
        else:
            new = call
        return ast.copy_location(new, node)


def _source_of(fn):
    src = inspect.getsource(fn)
    lines, first = inspect.getsourcelines(fn)
    return textwrap.dedent(src), first


def _is_contextmanager_function(fn):
    w = getattr(fn, "__wrapped__", None)
    return (isinstance(w, types.FunctionType) and inspect.isgeneratorfunction(w)
            and getattr(fn, "__code__", None) is not None and fn.__code__.co_filename.endswith("contextlib.py"))


def make_twin(fn, mode, qualname=None):
    """Compile the twin of plain function `fn` (unwrap methods / staticmethods first)."""
    if not isinstance(fn, types.FunctionType):
        raise Refused("not a plain function: %r" % (fn,))
    is_cm = _is_contextmanager_function(fn)
    if is_cm:
        fn = fn.__wrapped__
    cls_cell = None
    if fn.__code__.co_freevars == ("__class__",):
        cls_cell = fn.__closure__[0].cell_contents  # method using super: zero-arg super() is rewritten below
    elif fn.__code__.co_freevars:
        raise Refused("closure (free variables %s)" % (fn.__code__.co_freevars,))
    if fn.__code__.co_flags & (inspect.CO_COROUTINE | inspect.CO_ASYNC_GENERATOR):
        raise Refused("coroutine")
    if (fn.__code__.co_flags & inspect.CO_GENERATOR) and not is_cm:
        raise Refused("generator")
    src, first = _source_of(fn)
    tree = ast.parse(src)
    fdef = tree.body[0]
    if not isinstance(fdef, ast.FunctionDef):
        raise Refused("source is not a def")
    for d in fdef.decorator_list:
        dn = ast.unparse(d)
        if dn.split(".")[-1] not in ("staticmethod", "classmethod", "abstractmethod") + (("contextmanager",) if is_cm else ()):
            raise Refused("decorator %s would be dropped by the twin" % dn)
    qn = qualname or fn.__qualname__
    tx = _Tx(mode, qn, first - 1)
    twin_name = "_vp_twin_%s_%s" % (mode, qn.replace(".", "_").replace("<", "_").replace(">", "_"))
    if cls_cell is not None:
        first_arg = fdef.args.args[0].arg if fdef.args.args else None
        for n in ast.walk(fdef):
            if isinstance(n, ast.Call) and isinstance(n.func, ast.Name) and n.func.id == "super" and not n.args:
                if first_arg is None:
                    raise Refused("zero-argument super() without a first parameter")
                n.args = [ast.Name("_vp_cls_" + twin_name, ast.Load()), ast.Name(first_arg, ast.Load())]
            elif isinstance(n, ast.Name) and n.id == "__class__":
                n.id = "_vp_cls_" + twin_name
    if is_cm and mode == "G":
        fdef = _TagCmYields().visit(fdef)
    fdef = tx.visit(fdef)
    fdef.name = twin_name
    mod = ast.Module(body=[fdef], type_ignores=[])
    ast.fix_missing_locations(mod)
    ast.increment_lineno(mod, first - 1)
    code = compile(mod, "<vp-twin:%s:%s>" % (mode, inspect.getsourcefile(fn) or "?"), "exec")
    g = fn.__globals__
    for k, v in HELPERS[mode].items():
        if g.get(k) is not v:
            g[k] = v
            _INJECTED.append((g, k))
    if cls_cell is not None:
        g["_vp_cls_" + twin_name] = cls_cell
        _INJECTED.append((g, "_vp_cls_" + twin_name))
    ns = {}
    exec(code, g, ns)
    twin = ns[twin_name]
    if is_cm:
        if mode == "H":
            import contextlib

            twin = contextlib.contextmanager(twin)  # hooks are plain calls: the generator's own yield is untouched
        else:
            gen_fn = twin

            def twin(*a, __g=gen_fn, **k):
                return CmTwin(__g(*a, **k))
            twin.__vp_cm__ = True
    twin.__vp_ticks__ = tx.ticks
    twin.__vp_of__ = fn
    if fn.__defaults__:
        twin.__defaults__ = fn.__defaults__
    if fn.__kwdefaults__:
        twin.__kwdefaults__ = dict(fn.__kwdefaults__)
    return twin


class CmTwin:
    """Step-wise driver of the G twin of a @contextmanager generator."""

    def __init__(self, g):
        self.g = g

    @staticmethod
    def _is_cm_yield(t):
        return isinstance(t, tuple) and len(t) == 2 and t[0] == "__cm__"

    def enter(self):
        while True:
            try:
                t = next(self.g)
            except StopIteration:
                raise RuntimeError("generator didn't yield")
            if self._is_cm_yield(t):
                return t[1]
            yield t

    def exit(self, exc):
        try:
            t = self.g.throw(exc) if exc is not None else next(self.g)
        except StopIteration:
            return exc is not None  # swallowed (only meaningful when an exception was passed in)
        while True:
            if self._is_cm_yield(t):
                raise RuntimeError("generator didn't stop")
            yield t
            try:
                t = next(self.g)
            except StopIteration:
                return exc is not None


def register_module(mod, exclude=(), modes=("G", "H")):
    """Every plain function and every method of every class DEFINED in module `mod`."""
    done, refused = [], []
    for name, obj in list(vars(mod).items()):
        if name in exclude or name.startswith("_vp_"):
            continue
        if isinstance(obj, types.FunctionType) and (obj.__module__ == mod.__name__ or _is_contextmanager_function(obj)
                                                     and obj.__wrapped__.__module__ == mod.__name__):
            try:
                register(obj, name, modes)
                done.append(name)
            except (Refused, OSError, SyntaxError) as e:
                refused.append((name, str(e)))
        elif isinstance(obj, type) and obj.__module__ == mod.__name__:
            d, r = register_class(obj, None, exclude, modes)
            done += d
            refused += r
    return done, refused


def register(fn, qualname=None, modes=("G", "H")):
    """Register twins for a function / method / staticmethod object. Returns the plain function."""
    f = fn
    if isinstance(f, (staticmethod, classmethod)):
        f = f.__func__
    if isinstance(f, types.MethodType):
        f = f.__func__
    for mode in modes:
        if f not in REG[mode]:
            REG[mode][f] = make_twin(f, mode, qualname)
    return f


def register_class(cls, names=None, exclude=(), modes=("G", "H")):
    done, refused = [], []
    for name, obj in list(vars(cls).items()):
        if names is not None and name not in names:
            continue
        if name in exclude:
            continue
        f = obj.__func__ if isinstance(obj, (staticmethod, classmethod)) else obj
        if not isinstance(f, types.FunctionType):
            continue
        try:
            register(f, "%s.%s" % (cls.__name__, name), modes)
            done.append("%s.%s" % (cls.__name__, name))
        except (Refused, OSError, SyntaxError) as e:
            refused.append(("%s.%s" % (cls.__name__, name), str(e)))
    return done, refused


def lookup(mode, f):
    """Twin to run for callee object f, as a callable taking the same arguments; None = atomic."""
    reg = REG[mode]
    if isinstance(f, types.MethodType):
        tw = reg.get(f.__func__)
        if tw is not None:
            slf = f.__self__
            return lambda *a, **k: tw(slf, *a, **k)
        return None
    if isinstance(f, types.FunctionType):
        return reg.get(f)
    if isinstance(f, type) or isinstance(f, (types.BuiltinFunctionType, types.BuiltinMethodType)):
        return None
    call = getattr(type(f), "__call__", None)
    if isinstance(call, types.FunctionType):
        tw = reg.get(call)
        if tw is not None:
            return lambda *a, **k: tw(f, *a, **k)
    return None


def clear():
    REG["G"].clear()
    REG["H"].clear()
    for g, k in _INJECTED:
        g.pop(k, None)
    del _INJECTED[:]
