"""
memento environments and generated program modules for function-level obligations (DESIGN.md 3.1/3.2).
"""
import contextlib
import importlib
import linecache
import os
import shutil
import sys
import tempfile
import types
import uuid as _uuid

import twosigma.memento as m
from twosigma.memento import configuration as _cfg
from twosigma.memento import code_hash as _code_hash
from twosigma.memento import runner_local as _runner_local
from twosigma.memento import call_stack as _call_stack
from twosigma.memento.memento import MementoFunction

from . import engine

SHM = "/dev/shm"


@contextlib.contextmanager
def concrete_region():
    """Run a block whose inputs are all concrete without the symbolic tracer (pure speed-up;
    the solver still organises which blocks run: every input was fixed by a `pick`)."""
    if engine.is_symbolic_run():
        from crosshair.tracers import NoTracing

        with NoTracing():
            yield
    else:
        yield


class SeqUuid:
    """Deterministic replacement for uuid.uuid4 (CrossHair needs re-executions to be deterministic)."""

    def __init__(self):
        self.n = 0

    def __call__(self):
        self.n += 1
        return _uuid.UUID(int=(0xABCDEF << 64) + self.n)


_saved = {}


def reset_memento_globals():
    """Make path n+1 independent of path n: call stack, per-call mutexes, version cache,
    function registry."""
    tbl = getattr(_runner_local, "_memento_fn_mutex", None)
    for meth in ("clear", "cache_clear"):  # whatever kind of table the per-invocation locks live in
        if hasattr(tbl, meth):
            getattr(tbl, meth)()
            break
    tl = getattr(_call_stack, "_call_stack_thread_local", None)
    if tl is not None and hasattr(tl, "__dict__"):
        tl.__dict__.pop("call_stack", None)
    else:
        # (the call stack is kept some other way: the public swap is all the harness relies on)
        _call_stack.CallStack.swap(_call_stack.CallStack())
    MementoFunction._global_fn_generation = 0
    MementoFunction._global_fn_version_cache.clear()


def snapshot_registry():
    return (set(_cfg._registered_function_names), {k: list(v) for k, v in _cfg._registered_functions.items()})


def restore_registry(snap):
    names, fns = snap
    _cfg._registered_function_names.clear()
    _cfg._registered_function_names.update(names)
    _cfg._registered_functions.clear()
    for k, v in fns.items():
        _cfg._registered_functions[k] = list(v)


class Sandbox:
    """A scratch directory on tmpfs plus a memento Environment with one or more clusters.
    kinds: 'memory', 'fs', 'fs+meta' (separate metadata path), 'fs+cache:<mb>', 'null'."""

    def __init__(self, kinds=None, clusters=None, runner=None, root=None):
        if root is not None:
            os.makedirs(root, exist_ok=True)
            self.root = root
        else:
            self.root = tempfile.mkdtemp(prefix="vp-%d-" % os.getpid(), dir=SHM)
        self.prev_env = _cfg.environment
        self.registry = snapshot_registry()
        self.uuid_orig = None
        clusters = clusters or {}
        repo_clusters = {}
        for name, kind in clusters.items():
            repo_clusters[name] = self.make_cluster(name, kind, runner)
        self.env = m.Environment(
            name="vp", base_dir=self.root,
            repos=[m.ConfigurationRepository(name="repo", clusters=repo_clusters)],
        )
        if kinds is not None:
            # replace the default cluster's storage
            self.env.default_cluster.storage = self.make_storage(kinds, "default")
            if runner is not None:
                self.env.default_cluster.runner = m.RunnerBackend.create(runner, {})
        m.Environment.set(self.env)
        reset_memento_globals()
        self.install_uuid()

    def install_uuid(self):
        import twosigma.memento.storage_filesystem as sf
        import twosigma.memento.runner as rn

        self.uuid_orig = (sf.uuid4, rn.uuid.uuid4)
        seq = SeqUuid()
        sf.uuid4 = seq

        class _U:
            uuid4 = staticmethod(seq)

        self._rn_uuid = rn.uuid
        rn.uuid = _U

    def make_storage(self, kind, name, read_only=None):
        path = os.path.join(self.root, name)
        if kind == "memory":
            return m.StorageBackend.create("memory", {})
        if kind == "null":
            return m.StorageBackend.create("null", {})
        from twosigma.memento.storage_filesystem import FilesystemStorageBackend

        if kind == "fs":
            return FilesystemStorageBackend(path=path, read_only=read_only)
        if kind == "fs+meta":
            return FilesystemStorageBackend(path=path, metadata_path=path + "-meta", read_only=read_only)
        if kind.startswith("fs+cache:"):
            mb = float(kind.split(":")[1])
            return FilesystemStorageBackend(path=path, memory_cache_mb=mb, read_only=read_only)
        raise ValueError(kind)

    def make_cluster(self, name, kind, runner=None):
        return m.FunctionCluster(
            name=name, storage=self.make_storage(kind, "cluster-" + name),
            runner=m.RunnerBackend.create(runner or "local", {}),
        )

    def storage(self, cluster=None):
        return self.env.get_cluster(cluster).storage

    def close(self):
        import twosigma.memento.storage_filesystem as sf
        import twosigma.memento.runner as rn

        if self.uuid_orig:
            sf.uuid4 = self.uuid_orig[0]
            rn.uuid = self._rn_uuid
        _cfg.environment = self.prev_env
        restore_registry(self.registry)
        reset_memento_globals()
        shutil.rmtree(self.root, ignore_errors=True)

    def __enter__(self):
        return self

    def __exit__(self, *a):
        self.close()


import collections


class _TraceLog(collections.deque):
    """Side-channel execution trace. A deque on purpose: memento's code hashing tracks module-level
    variables of supported types (a list would be hashed into every version and change it on every call);
    a deque is not a supported type and its methods are builtins, so it is invisible to versions."""

    def __getitem__(self, i):
        if isinstance(i, slice):
            return list(self)[i]
        return collections.deque.__getitem__(self, i)


class Program:
    """A module built from source text; the source is registered in linecache so that
    inspect.getsource / ast (list_dotted_names) see it. Re-executing new text under the same
    module name emulates an edited program (in-process) or, after clear_process_state(), a fresh
    process."""

    _serial = [0]

    def __init__(self, name, package=""):
        Program._serial[0] += 1
        self.tag = "%s#%d" % (name, Program._serial[0])  # linecache namespace of this instance
        self.name = name
        self.mod = types.ModuleType(name)
        self.mod.__package__ = package
        self.mod.__file__ = "<vp:%s>" % name
        self.trace = _TraceLog()
        self.mod.__dict__["_trace"] = self.trace
        self.mod.__dict__["m"] = m
        sys.modules[name] = self.mod
        self.version = 0

    def exec(self, text):
        self.version += 1
        fname = "<vp:%s:%d>" % (self.tag, self.version)
        linecache.cache[fname] = (len(text), None, text.splitlines(True), fname)
        code = compile(text, fname, "exec")
        exec(code, self.mod.__dict__)
        return self

    def fresh(self):
        """Emulate a fresh interpreter for this module: new module object under the same name."""
        old_trace = self.trace
        self.mod = types.ModuleType(self.name)
        self.mod.__package__ = ""
        self.mod.__file__ = "<vp:%s>" % self.name
        self.trace = old_trace
        self.mod.__dict__["_trace"] = self.trace
        self.mod.__dict__["m"] = m
        sys.modules[self.name] = self.mod
        return self

    def __getattr__(self, k):
        return getattr(self.__dict__["mod"], k)

    def close(self):
        sys.modules.pop(self.name, None)
        for k in [k for k in linecache.cache if k.startswith("<vp:%s:" % self.tag)]:
            del linecache.cache[k]


def clear_process_state():
    """What a new interpreter would not have: version cache, generation, call stack, mutexes,
    registered functions, dotted-names cache."""
    reset_memento_globals()
    _cfg._registered_function_names.clear()
    _cfg._registered_functions.clear()
    _code_hash._dotted_names_cache.clear() if hasattr(_code_hash._dotted_names_cache, "clear") else None


def restart_sandbox(sb, kind):
    """Emulate a process restart on the same persistent store: every in-process object is thrown away."""
    reset_memento_globals()
    sb.env.default_cluster.storage = sb.make_storage(kind, "default")
    return sb.env.default_cluster.storage
