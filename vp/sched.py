"""
Cooperative scheduler for generator twins (G) and step-granting controller for real threads (H).

A *schedule* is a list of (step, k): before global step number `step` the processor is taken from the
running thread and handed to the (k+1)-th other runnable thread after it, cyclically (a pre-emption).  Otherwise the running thread keeps running until it finishes or blocks
on a lock, in which case the lowest-numbered runnable thread continues (a forced switch, not counted).
A step = resuming one thread until its next tick (statement boundary of instrumented code).

Both drivers produce the same trace of (thread, tag) steps for the same schedule; that is what makes the
real-thread run a replay of the generator-level counterexample.
"""
import threading
import _thread

from . import gen

_LOCK_TYPES = (type(threading.Lock()), type(threading.RLock()))


class Deadlock(Exception):
    pass


class InfeasibleSchedule(Exception):
    """The schedule names a thread that cannot run at that step (finished / blocked)."""


class StepLimit(Exception):
    pass


# ------------------------------------------------------------------------------------------------
# G: generator twins in one OS thread
# ------------------------------------------------------------------------------------------------


class CoopLock:
    """Re-entrant mutual exclusion between logical threads."""

    def __init__(self):
        self.owner = None
        self.count = 0

    def try_acquire(self, me):
        if self.owner is None or self.owner == me:
            self.owner = me
            self.count += 1
            return True
        return False

    def release(self, me):
        assert self.owner == me and self.count > 0, "release of a lock not held"
        self.count -= 1
        if self.count == 0:
            self.owner = None


class CoopLocal:
    """threading.local for logical threads."""

    def __init__(self, sched_ref):
        object.__setattr__(self, "_vp_ref", sched_ref)
        object.__setattr__(self, "_vp_data", {})

    def _d(self):
        s = object.__getattribute__(self, "_vp_ref")()
        cur = s.current if s is not None else None
        return object.__getattribute__(self, "_vp_data").setdefault(cur, {})

    def __getattr__(self, k):
        try:
            return self._d()[k]
        except KeyError:
            raise AttributeError(k)

    def __setattr__(self, k, v):
        self._d()[k] = v

    def __delattr__(self, k):
        try:
            del self._d()[k]
        except KeyError:
            raise AttributeError(k)


_ACTIVE = [None]  # the running Sched (G) or RealThreads (H)


def _active():
    return _ACTIVE[0]


def _lock_method(f):
    """(lock, name) if f is a bound acquire/release/__enter__/__exit__ of a threading lock, else None."""
    slf = getattr(f, "__self__", None)
    if slf is not None and isinstance(slf, _LOCK_TYPES) and getattr(f, "__name__", "") in ("acquire", "release", "__enter__", "__exit__"):
        return slf, f.__name__
    return None


def _g_call(f, *a, **k):
    tw = gen.lookup("G", f)
    if tw is None:
        lm = _lock_method(f)
        if lm is not None:
            # explicit lock calls inside instrumented code go to the cooperative lock
            s = _active()
            lock, name = lm
            coop = s.coop_of(lock)
            if name in ("acquire", "__enter__"):
                blocking = (a[0] if a else k.get("blocking", True)) if name == "acquire" else True
                if not blocking:
                    return coop.try_acquire(s.current)
                while not coop.try_acquire(s.current):
                    yield ("blocked", coop)
                return True
            coop.release(s.current)
            return None
        return f(*a, **k)
    if getattr(tw, "__vp_cm__", False):
        return tw(*a, **k)  # a CmTwin object; its enter / exit are driven by the caller's `with`
    return (yield from tw(*a, **k))


def _g_is_lock(cm):
    return isinstance(cm, _LOCK_TYPES) or isinstance(cm, CoopLock)


def _g_acquire(cm):
    s = _active()
    lock = s.coop_of(cm)
    while not lock.try_acquire(s.current):
        yield ("blocked", lock)
    return True


def _g_release(cm):
    s = _active()
    s.coop_of(cm).release(s.current)


def _g_is_cmtwin(cm):
    return isinstance(cm, gen.CmTwin)


gen.HELPERS["G"] = {"_vp_call_G": _g_call, "_vp_is_lock_G": _g_is_lock, "_vp_acquire_G": _g_acquire, "_vp_release_G": _g_release,
                    "_vp_is_cmtwin_G": _g_is_cmtwin}


class Sched:
    def __init__(self, entries, schedule, max_steps=4000, allow_unfired=False):
        """entries: list of (callable, args, kwargs) - one logical thread each (callable must have a G twin or is run atomically)."""
        self.allow_unfired = allow_unfired
        self.unfired = []
        self.entries = entries
        self.schedule = list(schedule)
        self.max_steps = max_steps
        self.current = None
        self.locks = {}
        self.keep = []
        self.trace = []
        self.results = [None] * len(entries)
        self.preemptions_used = 0

    def coop_of(self, cm):
        if isinstance(cm, CoopLock):
            return cm
        lk = self.locks.get(id(cm))
        if lk is None:
            lk = self.locks[id(cm)] = CoopLock()
            self.keep.append(cm)
        return lk

    def _main(self, i):
        f, a, k = self.entries[i]
        return (yield from _g_call(f, *a, **k))

    def run(self):
        n = len(self.entries)
        gens = [self._main(i) for i in range(n)]
        alive = [True] * n
        blocked = [None] * n
        prev = _ACTIVE[0]
        _ACTIVE[0] = self
        step = 0
        cur = 0
        sched = list(self.schedule)
        try:
            while any(alive):
                def runnable(t):
                    return alive[t] and (blocked[t] is None or blocked[t].owner is None or blocked[t].owner == t)

                # pre-emption requested before this step?
                for (s, t) in sched:
                    if s == step:
                        # target = the (t+1)-th OTHER runnable thread after the running one, cyclically (None = 0)
                        others = [u % n for u in range(cur + 1, cur + n) if runnable(u % n)]
                        k = 0 if t is None else t
                        if not (0 <= k < len(others)):
                            if getattr(self, "lenient", False):
                                continue  # sampled schedules: a slot that cannot be realised is skipped
                            raise InfeasibleSchedule((s, t))
                        t = others[k]
                        if t != cur:
                            self.preemptions_used += 1
                        cur = t
                if not runnable(cur):
                    cands = [t for t in range(n) if runnable(t)]
                    if not cands:
                        raise Deadlock([(t, id(blocked[t])) for t in range(n) if alive[t]])
                    cur = cands[0]
                self.current = cur
                blocked[cur] = None
                try:
                    tag = next(gens[cur])
                    if isinstance(tag, tuple) and tag and tag[0] == "blocked":
                        blocked[cur] = tag[1]
                        self.trace.append((cur, "blocked"))
                    else:
                        self.trace.append((cur, tag))
                except StopIteration as e:
                    alive[cur] = False
                    self.results[cur] = ("ok", e.value)
                    self.trace.append((cur, "done"))
                except Exception as e:  # noqa - outcome of the logical thread
                    if type(e).__module__.startswith("crosshair"):
                        raise  # the symbolic engine's own control flow
                    alive[cur] = False
                    self.results[cur] = ("exc", e)
                    self.trace.append((cur, "raised:" + type(e).__name__))
                step += 1
                if step > self.max_steps:
                    raise StepLimit(step)
            self.steps = step
            # slots that never fired (step beyond the end of the run)
            self.unfired = [i for i, (s, t) in enumerate(sched) if not (s < step)]
            if self.unfired and not self.allow_unfired:
                raise InfeasibleSchedule(sched[self.unfired[0]])
        finally:
            for i, g in enumerate(gens):
                self.current = i
                try:
                    g.close()  # aborted run: unwinds the twin's finally blocks (lock releases) first
                except Exception:  # noqa - e.g. suspended at a tick inside a finally block: drop it
                    pass
            self.current = None
            _ACTIVE[0] = prev
        return self.results


class FocusSched(Sched):
    """Pre-emptions only at FOCUS points: `focus(tag)` says whether the statement a thread is about to execute (its tick tag) is one.
    schedule: list of (focus_index, k) - when the focus_index-th focus arrival (counted globally, in order of occurrence) happens,
    the arriving thread is suspended BEFORE that statement and the (k+1)-th other runnable thread runs. Entries whose index is never
    reached make the schedule unrealisable (InfeasibleSchedule), as do entries without a runnable target."""

    def __init__(self, entries, schedule, focus, max_steps=8000):
        super().__init__(entries, [], max_steps=max_steps)
        self.focus = focus
        self.focus_schedule = list(schedule)
        self.focus_arrivals = []
        self.step_schedule = []  # the same pre-emptions as (step, k) entries of the plain scheduler (for the real-thread replay)

    def run(self):
        n = len(self.entries)
        gens = [self._main(i) for i in range(n)]
        alive = [True] * n
        blocked = [None] * n
        prev = _ACTIVE[0]
        _ACTIVE[0] = self
        step = 0
        cur = 0
        fired = set()
        try:
            while any(alive):
                def runnable(t):
                    return alive[t] and (blocked[t] is None or blocked[t].owner is None or blocked[t].owner == t)

                if not runnable(cur):
                    cands = [t for t in range(n) if runnable(t)]
                    if not cands:
                        raise Deadlock([(t, id(blocked[t])) for t in range(n) if alive[t]])
                    cur = cands[0]
                self.current = cur
                blocked[cur] = None
                try:
                    tag = next(gens[cur])
                    if isinstance(tag, tuple) and tag and tag[0] == "blocked":
                        blocked[cur] = tag[1]
                        self.trace.append((cur, "blocked"))
                    else:
                        self.trace.append((cur, tag))
                        if self.focus(tag):
                            fi = len(self.focus_arrivals)
                            self.focus_arrivals.append((cur, tag))
                            for j, (f_, k) in enumerate(self.focus_schedule):
                                if f_ == fi:
                                    others = [u % n for u in range(cur + 1, cur + n) if runnable(u % n)]
                                    if not (0 <= k < len(others)):
                                        raise InfeasibleSchedule((f_, k))
                                    fired.add(j)
                                    self.preemptions_used += 1
                                    self.step_schedule.append((step + 1, k))
                                    cur = others[k]
                except StopIteration as e:
                    alive[cur] = False
                    self.results[cur] = ("ok", e.value)
                    self.trace.append((cur, "done"))
                except (InfeasibleSchedule, Deadlock):
                    raise
                except Exception as e:  # noqa - outcome of the logical thread
                    if type(e).__module__.startswith("crosshair"):
                        raise
                    alive[cur] = False
                    self.results[cur] = ("exc", e)
                    self.trace.append((cur, "raised:" + type(e).__name__))
                step += 1
                if step > self.max_steps:
                    raise StepLimit(step)
            self.steps = step
            if len(fired) != len(self.focus_schedule):
                raise InfeasibleSchedule([e for j, e in enumerate(self.focus_schedule) if j not in fired][0])
        finally:
            for i, g in enumerate(gens):
                self.current = i
                try:
                    g.close()
                except Exception:  # noqa
                    pass
            self.current = None
            _ACTIVE[0] = prev
        return self.results


# ------------------------------------------------------------------------------------------------
# H: real threads, one step granted at a time
# ------------------------------------------------------------------------------------------------


def _h_call(f, *a, **k):
    tw = gen.lookup("H", f)
    if tw is None:
        lm = _lock_method(f)
        if lm is not None and lm[1] in ("acquire", "__enter__"):
            lock, name = lm
            blocking = (a[0] if a else k.get("blocking", True)) if name == "acquire" else True
            if not blocking:
                return lock.acquire(blocking=False)
            return _h_acquire(lock)  # real lock, but waiting is reported to the controller step by step
        return f(*a, **k)
    return tw(*a, **k)


def _h_hook(tag):
    c = _active()
    if c is not None:
        c.arrive(tag)


def _h_is_lock(cm):
    return isinstance(cm, _LOCK_TYPES)


def _h_acquire(cm):
    c = _active()
    while not cm.acquire(blocking=False):
        if c is None:
            cm.acquire()
            return True
        c.arrive(("blocked", cm))
    return True


def _h_release(cm):
    cm.release()


gen.HELPERS["H"] = {"_vp_call_H": _h_call, "_vp_hook_H": _h_hook, "_vp_is_lock_H": _h_is_lock, "_vp_acquire_H": _h_acquire, "_vp_release_H": _h_release}


class RealThreads:
    """Runs the H twins on real threading.Threads; grants one step at a time following the schedule."""

    def __init__(self, entries, schedule, max_steps=4000, timeout=60.0):
        self.entries = entries
        self.schedule = list(schedule)
        self.max_steps = max_steps
        self.timeout = timeout
        n = len(entries)
        self.go = [threading.Semaphore(0) for _ in range(n)]
        self.back = threading.Semaphore(0)
        self.ident = {}
        self.last = [None] * n
        self.results = [None] * n
        self.alive = [True] * n
        self.trace = []
        self.preemptions_used = 0

    def _me(self):
        return self.ident[threading.get_ident()]

    def arrive(self, tag):
        i = self.ident.get(threading.get_ident())
        if i is None:
            return  # not one of ours (e.g. the controller running atomic code)
        self.last[i] = tag
        self.back.release()
        self.go[i].acquire()

    def _body(self, i):
        self.ident[threading.get_ident()] = i
        self.go[i].acquire()
        f, a, k = self.entries[i]
        try:
            self.results[i] = ("ok", _h_call(f, *a, **k))
        except Exception as e:  # noqa
            self.results[i] = ("exc", e)
        self.alive[i] = False
        self.last[i] = "done"
        self.back.release()

    def _lock_free_for(self, lock, t):
        # a real lock has no owner query: try it from the controller (never held by the controller otherwise)
        if lock.acquire(blocking=False):
            lock.release()
            return True
        return False

    def run(self):
        n = len(self.entries)
        threads = [threading.Thread(target=self._body, args=(i,), daemon=True) for i in range(n)]
        prev = _ACTIVE[0]
        _ACTIVE[0] = self
        for t in threads:
            t.start()
        blocked = [None] * n
        step = 0
        cur = 0
        try:
            while any(self.alive):
                def runnable(t):
                    return self.alive[t] and (blocked[t] is None or self._lock_free_for(blocked[t], t))

                for (s, t) in self.schedule:
                    if s == step:
                        # target = the (t+1)-th OTHER runnable thread after the running one, cyclically (None = 0)
                        others = [u % n for u in range(cur + 1, cur + n) if runnable(u % n)]
                        k = 0 if t is None else t
                        if not (0 <= k < len(others)):
                            if getattr(self, "lenient", False):
                                continue  # sampled schedules: a slot that cannot be realised is skipped
                            raise InfeasibleSchedule((s, t))
                        t = others[k]
                        if t != cur:
                            self.preemptions_used += 1
                        cur = t
                if not runnable(cur):
                    cands = [t for t in range(n) if runnable(t)]
                    if not cands:
                        raise Deadlock([t for t in range(n) if self.alive[t]])
                    cur = cands[0]
                blocked[cur] = None
                self.go[cur].release()
                if not self.back.acquire(timeout=self.timeout):
                    raise Deadlock("thread %d did not reach its next step within %ss" % (cur, self.timeout))
                tag = self.last[cur]
                if isinstance(tag, tuple) and tag and tag[0] == "blocked":
                    blocked[cur] = tag[1]
                    self.trace.append((cur, "blocked"))
                elif tag == "done":
                    r = self.results[cur]
                    self.trace.append((cur, "done" if r[0] == "ok" else "raised:" + type(r[1]).__name__))
                else:
                    self.trace.append((cur, tag))
                step += 1
                if step > self.max_steps:
                    raise StepLimit(step)
            self.steps = step
        finally:
            _ACTIVE[0] = prev
            # let stragglers run to completion un-gated
            for i in range(n):
                if self.alive[i]:
                    self.go[i].release()  # hooks are no-ops once _ACTIVE is reset
            for t in threads:
                t.join(timeout=5)
        return self.results
