"""
Concrete fixtures built once (natively) from the real memento classes: function references with
prefix-related names and versions, argument hashes, mementos.
"""
import datetime
import sys
import types

import twosigma.memento as m
from twosigma.memento.metadata import InvocationMetadata, Memento, ResultType
from twosigma.memento.reference import FunctionReference, FunctionReferenceWithArguments

# A real module so that FunctionReference.from_qualified_name (importlib) can find the functions.
MOD_NAME = "vpfix"
mod = types.ModuleType(MOD_NAME)
mod.__package__ = ""
sys.modules[MOD_NAME] = mod


def _define(name, version):
    def fn(x):
        return x

    fn.__name__ = name
    fn.__qualname__ = name
    fn.__module__ = MOD_NAME
    mf = m.MementoFunction(fn, version=version, auto_dependencies=False)
    setattr(mod, name, mf)
    return mf


def _plain_f(x):
    return x


_plain_f.__name__ = _plain_f.__qualname__ = "f"
_plain_f.__module__ = MOD_NAME


def F_IN_CLUSTER(cluster_name):
    """The same function f declared in a (possibly symbolic) named cluster; not registered."""
    return m.MementoFunction(_plain_f, cluster_name=cluster_name, version="1", auto_dependencies=False, register_fn=False)


F = _define("f", "1")
FF = _define("ff", "1")



def _g2(x, y, z=None):
    return (x, y, z)


_g2.__name__ = _g2.__qualname__ = "g2"
_g2.__module__ = MOD_NAME
G2 = m.MementoFunction(_g2, version="1", auto_dependencies=False)
mod.g2 = G2

# function references: f#1, f#10 (same function, version 1 vs 10), ff#1 (name has f as prefix)
REF_F1 = F.fn_reference()
REF_F10 = FunctionReference(F, version="10")
REF_FF1 = FF.fn_reference()
REFS = [REF_F1, REF_F10, REF_FF1]


def fwa(ref, x):
    return FunctionReferenceWithArguments(ref, (x,), {})


def make_memento(ref, x, result_type=ResultType.number):
    return Memento(
        time=datetime.datetime(2020, 1, 2, 3, 4, 5, tzinfo=datetime.timezone.utc),
        invocation_metadata=InvocationMetadata(
            fn_reference_with_args=fwa(ref, x),
            invocations=[],
            resources=[],
            runtime=datetime.timedelta(seconds=1),
            result_type=result_type,
        ),
        function_dependencies={ref},
        runner={"type": "local"},
        correlation_id="cid_fixture",
        content_key=None,
    )


# K = 3 call keys used by the cache obligations: (f#1, 1), (f#1, 2), (f#10, 1)
CALLS = [(REF_F1, 1), (REF_F1, 2), (REF_F10, 1)]
HASHES = [fwa(r, x).arg_hash for (r, x) in CALLS]
CACHE_KEYS = [r.qualified_name + "/" + h for (r, _x), h in zip(CALLS, HASHES)]
# a 4th key for K=4: (ff#1, 1)
CALLS4 = CALLS + [(REF_FF1, 1)]
HASHES4 = [fwa(r, x).arg_hash for (r, x) in CALLS4]
CACHE_KEYS4 = [r.qualified_name + "/" + h for (r, _x), h in zip(CALLS4, HASHES4)]
# pre-warm memento's dotted-names cache natively for the fixture functions (modifier clones re-scan the source)
from twosigma.memento.code_hash import list_dotted_names as _ldn  # noqa: E402

for _mf in (F, FF, G2):
    _ldn(_mf.src_fn)
_ldn(_plain_f)

MEMENTOS4 = [make_memento(r, x) for (r, x) in CALLS4]
NEW_MEMENTOS4 = [make_memento(r, x) for (r, x) in CALLS4]


class Val:
    """A weak-referenceable result value with identity."""

    __slots__ = ("tag", "__weakref__")

    def __init__(self, tag):
        self.tag = tag

    def __repr__(self):
        return "Val(%r)" % (self.tag,)

    def __eq__(self, o):
        return isinstance(o, Val) and o.tag == self.tag

    def __hash__(self):
        return hash(self.tag)
