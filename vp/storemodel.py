"""
Dictionary model of a storage back-end and the operation alphabet used by C05 / C07 / C19 histories.
"""
import datetime

from twosigma.memento.metadata import InvocationMetadata, Memento, ResultType
from twosigma.memento.reference import FunctionReferenceWithArgHash

from . import fixtures as fx
from .engine import check, cover

# four calls over three function references: names that are prefixes of each other, versions '1' vs '10'
CALLS = [(fx.REF_F1, 1), (fx.REF_F1, 2), (fx.REF_F10, 1), (fx.REF_FF1, 1)]
FWAS = [fx.fwa(r, x) for (r, x) in CALLS]
KEYS = [(f.fn_reference.qualified_name, f.arg_hash) for f in FWAS]
FNS = [fx.REF_F1, fx.REF_F10, fx.REF_FF1]

VALUES = {
    "small": 5,
    "other": "another value",
    "large": "x" * 3000,          # fits a 4 KiB cache alone
    "oversize": b"\x01" * 6000,   # larger than a 4 KiB cache
    # larger than a 4 KiB cache AND weak-referenceable AND held by the caller for the whole run (this table): the cache may
    # keep serving it through its weak-reference table while it is not resident
    "held-array": __import__("numpy").full(6000, 1, dtype="int8"),
    "none": None,
}


def result_type_of(v):
    return ResultType.from_object(v)


def new_memento(ci, value):
    f = FWAS[ci]
    return Memento(
        time=datetime.datetime(2020, 1, 2, 3, 4, 5, tzinfo=datetime.timezone.utc),
        invocation_metadata=InvocationMetadata(
            fn_reference_with_args=f, invocations=[], resources=[], runtime=datetime.timedelta(seconds=1),
            result_type=result_type_of(value),
        ),
        function_dependencies={f.fn_reference}, runner={"type": "local"}, correlation_id="cid", content_key=None,
    )


def build_ops(values=("small", "oversize", "none"), overrides=True, metadata=True, forgets=True, other_value=True,
              metadata_with_data=False):
    ops = []
    for ci in range(len(CALLS)):
        for v in values:
            ops.append(("memoize", ci, v, None))
    if other_value:
        ops.append(("memoize", 0, "other", None))
    if overrides:
        ops.append(("memoize", 0, "small", "ko/key1"))
        ops.append(("memoize", 2, "other", "ko/key1"))  # a different call writing to the same override key
        ops.append(("memoize", 3, "none", "ko/key1"))   # ... and a null result written under it
    if forgets:
        for ci in range(len(CALLS)):
            ops.append(("forget_call", ci))
        for fi in range(len(FNS)):
            ops.append(("forget_function", fi))
        ops.append(("forget_everything",))
    if metadata:
        ops.append(("write_metadata", 0, b"log-1"))
        ops.append(("write_metadata", 2, b"log-2"))
    if metadata_with_data:
        # the value is written next to the data object (store_with_content_key), a marker in the metadata store
        ops.append(("write_metadata_with_data", 0, b"log-3"))
    return ops


class Model:
    def __init__(self):
        self.entries = {}   # key index -> (value name, memento serial)
        self.meta = {}      # key index -> bytes
        self.serial = 0
        self.history = []

    def apply(self, op):
        self.history.append(op)
        k = op[0]
        if k == "memoize":
            self.serial += 1
            self.entries[op[1]] = (op[2], self.serial)
        elif k == "forget_call":
            self.entries.pop(op[1], None)
            self.meta.pop(op[1], None)
        elif k == "forget_function":
            q = FNS[op[1]].qualified_name
            for ci in list(self.entries):
                if KEYS[ci][0] == q:
                    del self.entries[ci]
            for ci in list(self.meta):
                if KEYS[ci][0] == q:
                    del self.meta[ci]
        elif k == "forget_everything":
            self.entries.clear()
            self.meta.clear()
        elif k in ("write_metadata", "write_metadata_with_data"):
            self.meta[op[1]] = op[2]


def applicable(model, op):
    """metadata is only written for calls that are memoized (the public API requires the memento)"""
    if op[0] == "write_metadata":
        return op[1] in model.entries
    if op[0] == "write_metadata_with_data":
        return op[1] in model.entries and VALUES[model.entries[op[1]][0]] is not None  # needs a stored data object
    return True


class NotApplicable(LookupError):
    """raised by apply_op when the operation has no object to act on in the current store (harness-level skip)"""


def apply_op(backend, op, kept=None):
    """apply one mutating operation to the real back-end; returns the memento object for memoize"""
    k = op[0]
    if k == "memoize":
        mem = new_memento(op[1], VALUES[op[2]])
        backend.memoize(op[3], mem, VALUES[op[2]])
        if kept is not None:
            kept.append((op[1], op[2], mem))
        return mem
    if k == "forget_call":
        f = FWAS[op[1]]
        backend.forget_call(f.fn_reference_with_arg_hash())
    elif k == "forget_function":
        backend.forget_function(FNS[op[1]])
    elif k == "forget_everything":
        backend.forget_everything()
    elif k == "write_metadata":
        backend.write_metadata(FWAS[op[1]].fn_reference_with_arg_hash(), "log", op[2])
    elif k == "write_metadata_with_data":
        fah = FWAS[op[1]].fn_reference_with_arg_hash()
        mem = backend.get_memento(fah)
        if mem is None or mem.content_key is None:
            raise NotApplicable("no stored data object to attach metadata to")
        backend.write_metadata(fah, "log", op[2], store_with_content_key=mem.content_key)
    return None


def values_equal(a, b):
    if type(a) is not type(b):
        return False
    if hasattr(a, "dtype") and hasattr(a, "shape"):
        import numpy as np

        return a.dtype == b.dtype and np.array_equal(a, b)
    return a == b


def check_is_memoized_only(backend, model, tag=""):
    """The least intrusive observation: is_memoized per call (it never inserts into the memory cache, unlike get_mementos /
    read_result, whose cache fills can mask what an operation left behind)."""
    hist = list(model.history)
    for ci in range(len(CALLS)):
        present = ci in model.entries
        check(tag + "is_memoized", bool(backend.is_memoized(FWAS[ci].fn_reference, FWAS[ci].arg_hash)) == present, (ci, present, hist))


def check_queries(backend, model, tag=""):
    """compare every read-only query of the StorageBackend API with the dictionary model"""
    hist = list(model.history)
    fahs = [f.fn_reference_with_arg_hash() for f in FWAS]
    got = backend.get_mementos(fahs)
    for ci in range(len(CALLS)):
        present = ci in model.entries
        check(tag + "get_mementos-presence", (got[ci] is not None) == present, (ci, present, hist))
        check(tag + "get_memento-presence", (backend.get_memento(fahs[ci]) is not None) == present, (ci, present, hist))
        check(tag + "is_memoized", bool(backend.is_memoized(FWAS[ci].fn_reference, FWAS[ci].arg_hash)) == present, (ci, present, hist))
        if present:
            mem = got[ci]
            fa = mem.invocation_metadata.fn_reference_with_args
            check(tag + "memento-identity", (fa.fn_reference.qualified_name, fa.arg_hash) == KEYS[ci], (ci, hist))
            vname = model.entries[ci][0]
            val = backend.read_result(mem)
            check(tag + "read-returns-last-value-written", values_equal(val, VALUES[vname]), (ci, vname, repr(val)[:60], hist))
            check(tag + "result-type-recorded", mem.invocation_metadata.result_type is result_type_of(VALUES[vname]), (ci, hist))
        md = backend.read_metadata(fahs[ci], "log")
        check(tag + "read_metadata", md == model.meta.get(ci), (ci, md, model.meta.get(ci), hist))
    # is_all_memoized over pairs
    for a in range(len(CALLS)):
        for b in range(a, len(CALLS)):
            expect = a in model.entries and b in model.entries
            check(tag + "is_all_memoized", bool(backend.is_all_memoized([FWAS[a], FWAS[b]])) == expect, (a, b, expect, hist))
    fns = sorted(r.qualified_name for r in backend.list_functions())
    expect_fns = sorted({KEYS[ci][0] for ci in model.entries})
    check(tag + "list_functions-enumerates-exactly-the-live-functions", fns == expect_fns, (fns, expect_fns, hist))
    for fi, ref in enumerate(FNS):
        lst = backend.list_mementos(ref)
        lst = lst or []
        hs = sorted(mm.invocation_metadata.fn_reference_with_args.arg_hash for mm in lst)
        exp = sorted(KEYS[ci][1] for ci in model.entries if KEYS[ci][0] == ref.qualified_name)
        check(tag + "list_mementos-enumerates-exactly-the-live-calls", hs == exp, (fi, hs, exp, hist))
