"""
./check selftest [ids...] [--confirm]   apply every seeded change under /verif/seeded (or those whose directory name starts with one of the
given ids) to a scratch worktree of /repo HEAD and demand that the quick check of its property reports a VIOLATION.
Never part of a property's verdict; /repo itself is not touched (tools/seedtest.py).  Exit 0 iff every seed is detected.
"""
import json
import os
import subprocess
import sys

VERIF = os.path.dirname(os.path.dirname(os.path.abspath(__file__)))


def main():
    args = [a for a in sys.argv[1:] if not a.startswith("--")]
    confirm = "--confirm" in sys.argv
    seeds = sorted(d for d in os.listdir(os.path.join(VERIF, "seeded")) if os.path.isdir(os.path.join(VERIF, "seeded", d)))
    if args:
        seeds = [s for s in seeds if any(s.startswith(a) for a in args)]
    missed = []
    rows = []
    for s in seeds:
        prop = s.split("-")[0]
        cmd = [sys.executable if False else "python3", os.path.join(VERIF, "tools", "seedtest.py"), os.path.join(VERIF, "seeded", s), prop]
        if not confirm:
            cmd.append("--skip-confirm")
        p = subprocess.run(cmd, capture_output=True, text=True)
        try:
            r = json.loads(p.stdout.strip().splitlines()[-1])
        except Exception:  # noqa
            r = {"error": (p.stdout + p.stderr)[-400:]}
        det = r.get("detected_by") or []
        ok = prop in det
        ck = r.get("checks", {}).get(prop, {})
        rows.append((s, ok, r.get("applies"), ck.get("exit"), ck.get("violations"), (ck.get("labels") or [])[:2], ck.get("wall_s")))
        print("%-8s %-9s applies=%s exit=%s violations=%s labels=%s wall=%ss" % (s, "DETECTED" if ok else "MISSED", r.get("applies"), ck.get("exit"),
                                                                               ck.get("violations"), (ck.get("labels") or [])[:2], ck.get("wall_s")), flush=True)
        if not ok:
            missed.append(s)
    print("selftest: %d seeded changes, %d detected, missed: %s" % (len(rows), len(rows) - len(missed), missed))
    sys.exit(1 if missed else 0)


if __name__ == "__main__":
    main()
