"""
Generated programs over a reference graph (DESIGN.md 3.2), shared by C14 / C03 / C13 / C01.

Node i is a function n<i>(d=0, fns=None); kind 'm' = memento function (automatic version), 'p' = plain helper.
Edge i -> j means "the body of n<i> names n<j>" in one of four reference forms.
"""
FORMS = ["bare", "module.attr", "alias", "wrapped", "shadowed"]
# "shadowed": a bare-name call, while the same body also contains a nested lambda and a nested def whose parameter / local variable
# has the callee's name (an inner scope's binding must not hide the outer reference from the static analysis)


def ref_expr(j, form):
    if form in ("bare", "shadowed"):
        return "n%d" % j
    if form == "module.attr":
        return "_self.n%d" % j
    if form == "alias":
        return "a%d" % j
    return "w%d" % j


def gen_graph_source(n, kinds, adj, forms, hidden=None, consts=None, module="vpgraph"):
    """adj[i][j] truthy => edge i->j; forms[i][j] in FORMS; hidden = (i, j) dynamic call invisible to static analysis.
    Calls are only made while d == 0 (static edges) so that every generated program terminates, cycles included."""
    consts = consts or {}
    out = ["import sys, functools\n_self = sys.modules[%r]\n" % module]
    for i in range(n):
        body = ["    _trace.append('n%d')\n" % i, "    r = %d\n" % consts.get(i, i)]
        calls = []
        for j in range(n):
            if adj[i][j]:
                calls.append("        r += %s(d + 1)\n" % ref_expr(j, forms[i][j]))
                if forms[i][j] == "shadowed":
                    calls.append("        r += (lambda n%d: n%d)(0)\n" % (j, j))
                    calls.append("        def _inner%d(x):\n            n%d = x\n            return n%d\n        r += _inner%d(0)\n" % (j, j, j, j))
        if calls:
            body.append("    if d == 0:\n" + "".join(calls))
        if hidden is not None and hidden[0] == i:
            depth = 0 if i == 0 else 1
            body.append("    if d == %d:\n        r += globals()['n' + str(%d)](d + 1)\n" % (depth, hidden[1]))
        body.append("    return r\n")
        deco = "@m.memento_function\n" if kinds[i] == "m" else ""
        out.append("%sdef n%d(d=0, fns=None):\n%s\n" % (deco, i, "".join(body)))
    # aliases and decorator-style wrappers, defined after all functions
    for j in range(n):
        out.append("a%d = n%d\n" % (j, j))
        out.append("def _mk_w%d():\n    @functools.wraps(n%d)\n    def w(*a, **k):\n        return n%d(*a, **k)\n    return w\nw%d = _mk_w%d()\n"
                   % (j, j, j, j, j))
    return "".join(out)


def reach(n, adj, i):
    seen = set()
    todo = [j for j in range(n) if adj[i][j]]
    while todo:
        j = todo.pop()
        if j in seen:
            continue
        seen.add(j)
        todo.extend(k for k in range(n) if adj[j][k])
    return seen


def reach_via_plain(n, kinds, adj, i):
    """memento nodes reachable from i through paths whose intermediate nodes are all plain"""
    out = set()
    seen = set()
    todo = [j for j in range(n) if adj[i][j]]
    while todo:
        j = todo.pop()
        if j in seen:
            continue
        seen.add(j)
        if kinds[j] == "m":
            out.add(j)
        else:
            todo.extend(k for k in range(n) if adj[j][k])
    return out
