"""
Code-record model (DESIGN.md 3.3): a record with the attributes CPython documents for code and
function objects, so that the real fn_code_hash can run on *symbolic* code attributes.
"""
import contextlib

from twosigma.memento import code_hash as _ch

from .stubs import InterningHashlib

FIELDS = ["co_argcount", "co_posonlyargcount", "co_kwonlyargcount", "co_code", "co_consts", "co_names", "co_varnames",
          "co_cellvars", "co_freevars", "co_flags", "co_nlocals", "co_stacksize", "co_name", "co_exceptiontable"]


class CodeRecord:
    def __init__(self, **kw):
        self.co_argcount = 1
        self.co_posonlyargcount = 0
        self.co_kwonlyargcount = 0
        self.co_code = b"\x97\x00"
        self.co_consts = (None,)
        self.co_names = ()
        self.co_varnames = ("x",)
        self.co_cellvars = ()
        self.co_freevars = ()
        self.co_flags = 3
        self.co_nlocals = 1
        self.co_stacksize = 1
        self.co_name = "f"
        self.co_qualname = "f"
        self.co_exceptiontable = b""
        for k, v in kw.items():
            setattr(self, k, v)

    def replace(self, **kw):
        d = {k: getattr(self, k) for k in FIELDS}
        d.update(kw)
        return CodeRecord(**d)


class FnRecord:
    def __init__(self, code, defaults=None, kwdefaults=None):
        self.__code__ = code
        self.__defaults__ = defaults
        self.__kwdefaults__ = kwdefaults
        self.__name__ = "f"
        self.__qualname__ = "f"
        self.__module__ = "vprec"

    def __call__(self, *a, **k):  # fn_code_hash asserts callable
        raise RuntimeError("record")


@contextlib.contextmanager
def record_model():
    """Install CodeRecord as code_hash.CodeType and an interning digest as code_hash.hashlib."""
    saved = (_ch.CodeType, _ch.hashlib)
    h = InterningHashlib()
    _ch.CodeType = CodeRecord
    _ch.hashlib = h
    try:
        yield h
    finally:
        _ch.CodeType, _ch.hashlib = saved
