"""
Bounded symbolic-execution driver over CrossHair's StateSpace (DESIGN.md section 2).

An *obligation* is a Python function (the harness) whose annotated parameters are the symbolic
variables.  Inside it:

    assume(cond)            precondition / bound; a path violating it is discarded
    check(label, cond, info) labelled assertion; a failing path is a counterexample
    cover(label)            reachability witness; every declared label must be hit
    pick(v, n)              concretise a choice variable 0..n-1 by forking one path per value

The driver executes the harness repeatedly under CrossHair's tracer; z3 decides the feasibility of
every branch taken on a symbolic value; the loop ends when the path tree is exhausted, a
counterexample is found (and not tolerated as a known finding), or the budget is spent.

The same harness runs *natively* (no tracer, concrete arguments) for replay.
"""
import contextlib
import inspect
import json
import os
import sys
import time
import traceback
from dataclasses import dataclass, field
from typing import Any, Callable, Dict, List, Optional, Tuple

# --------------------------------------------------------------------------------------------
# harness-side API (works both under the tracer and natively)
# --------------------------------------------------------------------------------------------


class CheckFailed(Exception):
    def __init__(self, label: str, info: Any = None):
        super().__init__(label)
        self.label = label
        self.info = info


class Tolerated(Exception):
    """A check failed inside the region of a known finding."""

    def __init__(self, label: str, finding: dict):
        super().__init__(label)
        self.label = label
        self.finding = finding


class HarnessUnsupported(Exception):
    """The harness cannot model the code as it now is (e.g. a mechanism it substitutes is gone): never a verdict about the code -
    the job ends as HARNESS-ERROR (exit code 2), with this message."""


class AssumptionViolated(Exception):
    """Only raised in native (replay) mode."""


class _PathState:
    def __init__(self):
        self.covers = set()
        self.symbolic = False
        self.args = {}  # harness arguments of the current path (symbolic or concrete)
        self.known = []  # known-finding entries applicable to the running obligation
        self.checks_reached = 0
        self.notes = []
        self.runs = 0


_STATE = _PathState()


def is_symbolic_run() -> bool:
    return _STATE.symbolic


def assume(cond) -> None:
    if not cond:
        if _STATE.symbolic:
            from crosshair.util import IgnoreAttempt

            raise IgnoreAttempt("assume")
        raise AssumptionViolated()


def cover(label: str) -> None:
    _STATE.covers.add(label)


def count_runs(n: int) -> None:
    """A path that executed n concrete runs of the real code in a plain loop (block of consecutive choice values)."""
    _STATE.runs += n


def note(x) -> None:
    """Attach a small piece of concrete information to the path (shown in samples)."""
    _STATE.notes.append(x)


def _eval_when(expr: str) -> bool:
    env = dict(_STATE.args)
    if _STATE.symbolic:
        from crosshair.tracers import ResumedTracing, is_tracing

        if not is_tracing():
            # check() was called from a concrete region: the predicate is over the (symbolic)
            # harness arguments, so evaluate it with the tracer on (it forks the path).
            with ResumedTracing():
                return True if eval(expr, {"__builtins__": __builtins__}, env) else False  # noqa: S307
    return bool(eval(expr, {"__builtins__": __builtins__}, env))  # noqa: S307 (own file)


def check(label: str, cond, info: Any = None) -> None:
    _STATE.checks_reached += 1
    if cond:
        return
    # failing: is it inside the region of a listed known finding (for this label)?
    for kf in _STATE.known:
        if kf.get("label") != label or not str(kf.get("status", "open")).startswith("open"):
            continue
        try:
            inside = _eval_when(kf.get("when", "False"))
        except Exception:  # a predicate that does not apply to these args
            inside = False
        if inside:
            raise Tolerated(label, kf)
    if callable(info):
        try:
            info = info()
        except Exception as e:  # noqa
            info = "<info unavailable: %s>" % type(e).__name__
    raise CheckFailed(label, info)


def pick(v, n: int) -> int:
    """Concretise v in range(n): forks one path per value under the tracer."""
    assume(0 <= v)
    assume(v < n)
    if n <= 4:
        for i in range(n - 1):
            if v == i:
                return i
        return n - 1
    # bisection: log2(n) solver-decided branches per path instead of up to n
    lo, hi = 0, n
    while hi - lo > 1:
        mid = (lo + hi) // 2
        if v < mid:
            hi = mid
        else:
            lo = mid
    return lo


def pick_from(v, options):
    return options[pick(v, len(options))]


def concrete_bool(b) -> bool:
    return True if b else False


# --------------------------------------------------------------------------------------------
# obligations
# --------------------------------------------------------------------------------------------


@dataclass
class Obligation:
    name: str  # "C06.step_put"
    fn: Callable
    prop: str
    covers: Tuple[str, ...] = ()
    split: Dict[str, list] = field(default_factory=dict)  # param -> concrete values (partition)
    bounds: str = ""
    variables: str = ""  # description: data / choice variables
    stubs: Tuple[str, ...] = ()
    real_functions: Tuple[str, ...] = ()  # declared targets (measured list is in evidence too)
    tiers: Tuple[str, ...] = ("quick", "thorough")
    tier_args: Dict[str, dict] = field(default_factory=dict)  # tier -> fixed kwargs
    tier_split: Dict[str, Dict[str, list]] = field(default_factory=dict)
    budget_s: Dict[str, float] = field(default_factory=lambda: {"quick": 120.0, "thorough": 900.0})
    per_path_s: float = 20.0
    setup: Optional[Callable] = None  # run once per job before exploring, natively
    teardown: Optional[Callable] = None
    replay_real: Optional[Callable] = None  # second-level replay against "the real thing"
    expect_inconclusive: bool = False  # bug-hunting only obligations
    data_vars: int = 0
    choice_vars: int = 0


REGISTRY: Dict[str, Obligation] = {}


def obligation(name: str, **kw):
    prop = name.split(".")[0]

    def deco(fn):
        ob = Obligation(name=name, fn=fn, prop=prop, **kw)
        REGISTRY[name] = ob
        fn.obligation = ob
        return fn

    return deco


# --------------------------------------------------------------------------------------------
# driver
# --------------------------------------------------------------------------------------------


@dataclass
class JobResult:
    obligation: str
    fixed: dict
    verdict: str  # HOLDS | REFUTED | INCONCLUSIVE | HARNESS-ERROR
    exhausted: bool
    paths: int = 0
    completed: int = 0
    runs: int = 0  # concrete executions of the real code (>= completed when a path loops over a block of choices)
    discarded: int = 0
    unknown: int = 0
    nontrivial: int = 0
    tolerated: int = 0
    covers: Dict[str, int] = field(default_factory=dict)
    solver_checks: int = 0
    solver_s: float = 0.0
    wall_s: float = 0.0
    samples: list = field(default_factory=list)
    failures: list = field(default_factory=list)  # dicts {label, args, info, trace}
    known_hits: list = field(default_factory=list)
    functions: list = field(default_factory=list)
    error: str = ""
    unknown_reasons: Dict[str, int] = field(default_factory=dict)


_SOLVER_STATS = {"n": 0, "t": 0.0}
_PATCHED = False


def _install_solver_counter():
    global _PATCHED
    if _PATCHED:
        return
    from crosshair import statespace

    orig = statespace.solver_is_sat

    def counted(solver, *exprs):
        t0 = time.perf_counter()
        try:
            return orig(solver, *exprs)
        finally:
            _SOLVER_STATS["n"] += 1
            _SOLVER_STATS["t"] += time.perf_counter() - t0

    statespace.solver_is_sat = counted
    _PATCHED = True


class _FnCoverage:
    """sys.monitoring PY_START listener restricted to twosigma/memento."""

    TOOL = 3

    def __init__(self):
        self.seen = set()
        self.active = False

    def start(self):
        mon = sys.monitoring
        try:
            mon.use_tool_id(self.TOOL, "vp-fncov")
        except ValueError:
            return

        def on_start(code, offset):
            fn = code.co_filename
            if "twosigma/memento" in fn:
                self.seen.add(os.path.basename(fn)[:-3] + "." + code.co_qualname)
            return mon.DISABLE

        mon.register_callback(self.TOOL, mon.events.PY_START, on_start)
        mon.set_events(self.TOOL, mon.events.PY_START)
        self.active = True

    def stop(self):
        if not self.active:
            return
        mon = sys.monitoring
        mon.set_events(self.TOOL, 0)
        mon.register_callback(self.TOOL, mon.events.PY_START, None)
        mon.free_tool_id(self.TOOL)
        self.active = False


def _jsonable(x, depth=0):
    if depth > 6:
        return repr(x)
    if x is None or isinstance(x, (bool, int, str)):
        return x
    if isinstance(x, float):
        if x != x or x in (float("inf"), float("-inf")):
            return {"__float__": repr(x)}
        return x
    if isinstance(x, bytes):
        return {"__bytes__": x.hex()}
    if isinstance(x, (list, tuple)):
        return [_jsonable(i, depth + 1) for i in x]
    if isinstance(x, dict):
        return {str(k): _jsonable(v, depth + 1) for k, v in x.items()}
    return repr(x)


def _unjson(x):
    if isinstance(x, dict):
        if set(x.keys()) == {"__bytes__"}:
            return bytes.fromhex(x["__bytes__"])
        if set(x.keys()) == {"__float__"}:
            return float(x["__float__"])
        return {k: _unjson(v) for k, v in x.items()}
    if isinstance(x, list):
        return [_unjson(i) for i in x]
    return x


def run_native(ob: Obligation, args: dict, known: Optional[list] = None):
    """Run the harness natively. Returns (outcome, label, info): outcome in
    {'pass','fail','tolerated','assume','error'}."""
    _STATE.symbolic = False
    _STATE.covers = set()
    _STATE.args = dict(args)
    _STATE.known = known or []
    _STATE.checks_reached = 0
    _STATE.notes = []
    _STATE.runs = 0
    try:
        ob.fn(**args)
        return ("pass", None, None)
    except CheckFailed as e:
        return ("fail", e.label, e.info)
    except Tolerated as e:
        return ("tolerated", e.label, e.finding.get("what"))
    except AssumptionViolated:
        return ("assume", None, None)
    except Exception as e:  # unexpected exception escaping real code == failure of 'no-exception'
        return ("fail", "unexpected-exception", "%s: %s\n%s" % (type(e).__name__, e, traceback.format_exc(limit=12)))


def _quick_confirm(ob: Obligation, failure: dict) -> bool:
    """Does the counterexample fail the same check when the harness is run natively in a fresh interpreter?"""
    import subprocess
    import tempfile

    try:
        with tempfile.NamedTemporaryFile("w", suffix=".json", dir="/dev/shm", delete=False) as fh:
            json.dump({"property": ob.prop, "obligation": ob.name, "label": failure["label"], "args": failure["args"], "info": None,
                       "trace": "", "skip_real": True}, fh)
            path = fh.name
        try:
            p = subprocess.run([sys.executable, "-m", "vp.run", "replay", path, "--json"], capture_output=True, text=True, timeout=300,
                               cwd=os.path.dirname(os.path.dirname(os.path.abspath(__file__))))
        finally:
            os.unlink(path)
        for line in p.stdout.splitlines():
            if line.startswith("REPLAY-JSON "):
                out = json.loads(line[len("REPLAY-JSON "):])
                return out.get("outcome") == "fail" and out.get("label") == failure["label"]
    except Exception:  # noqa
        return True  # cannot tell here: let the runner's own replay decide
    return False


def explore(ob: Obligation, fixed: dict, budget_s: float, known: list, seed: int = 0,
            max_failures: int = 3, want_samples: int = 4) -> JobResult:
    """Symbolically explore one obligation with some parameters fixed concretely."""
    from crosshair.core import (
        ExceptionFilter,
        Patched,
        deep_realize,
        gen_args,
    )
    from crosshair.condition_parser import condition_parser
    from crosshair.options import AnalysisKind
    from crosshair.statespace import (
        CallAnalysis,
        RootNode,
        StateSpace,
        StateSpaceContext,
        VerificationStatus,
    )
    from crosshair.tracers import COMPOSITE_TRACER, NoTracing, ResumedTracing
    from crosshair.util import (
        CrosshairUnsupported,
        IgnoreAttempt,
        NotDeterministic,
        UnexploredPath,
    )
    from crosshair.copyext import CopyMode, deepcopyext
    from . import engine_patches

    engine_patches.install()
    _install_solver_counter()

    res = JobResult(obligation=ob.name, fixed=_jsonable(fixed), verdict="INCONCLUSIVE", exhausted=False)
    sig_full = inspect.signature(ob.fn)
    sym_params = [p for n, p in sig_full.parameters.items() if n not in fixed]
    sig = inspect.Signature(sym_params)
    t_start = time.perf_counter()
    cpu_start = time.process_time()
    n0, st0 = _SOLVER_STATS["n"], _SOLVER_STATS["t"]
    fncov = _FnCoverage()
    fncov.start()
    if ob.setup:
        ob.setup()
    root = RootNode()
    try:
        import random as _r

        root._random = _r.Random(seed)
    except Exception:
        pass
    exhausted = False
    hard_error = None
    try:
        while True:
            if time.perf_counter() - t_start > budget_s:
                break
            itr_start = time.process_time()
            space = StateSpace(
                execution_deadline=itr_start + ob.per_path_s,
                model_check_timeout=ob.per_path_s / 2,
                search_root=root,
            )
            res.paths += 1
            status = None
            with condition_parser([AnalysisKind.asserts]), Patched(), COMPOSITE_TRACER, NoTracing(), StateSpaceContext(space):
                failure = None
                tolerated = None
                try:
                    pre_args = gen_args(sig)
                    args = deepcopyext(pre_args, CopyMode.REGULAR, {})
                    _STATE.symbolic = True
                    _STATE.covers = set()
                    _STATE.known = known
                    _STATE.checks_reached = 0
                    _STATE.notes = []
                    _STATE.runs = 0
                    call_kwargs = dict(fixed)
                    call_kwargs.update(args.arguments)
                    _STATE.args = call_kwargs
                    with ExceptionFilter() as efilter, ResumedTracing():
                        ob.fn(**call_kwargs)
                    if efilter.ignore:
                        raise IgnoreAttempt("filtered")
                    if efilter.user_exc:
                        exc = efilter.user_exc[0]
                        if isinstance(exc, NotDeterministic):
                            raise exc
                        if isinstance(exc, HarnessUnsupported):
                            raise exc
                        if isinstance(exc, Tolerated):
                            tolerated = exc
                        elif isinstance(exc, CheckFailed):
                            try:
                                with ResumedTracing():
                                    inf = deep_realize(exc.info)
                            except Exception:  # noqa
                                inf = "<unrealisable info>"
                            failure = (exc.label, inf, "")
                        else:
                            tb = "".join(traceback.format_exception(type(exc), exc, exc.__traceback__, limit=14))
                            failure = ("unexpected-exception", "%s: %s" % (type(exc).__name__, exc), tb)
                    # realise the inputs of this path (for samples / counterexamples)
                    realized = None
                    # (realising pins the symbolic inputs of this path to one value each, which adds decisions to the
                    # path tree: only do it when the values are going to be reported)
                    if failure or (tolerated and len(res.known_hits) < 5) or (not tolerated and len(res.samples) < want_samples):
                        with ResumedTracing():
                            realized = deep_realize(pre_args.arguments)
                        realized = dict(realized)
                    if failure:
                        full = dict(fixed)
                        full.update(realized)
                        res.failures.append(
                            {"label": failure[0], "info": _jsonable(failure[1]), "args": _jsonable(full), "trace": failure[2][-3000:]}
                        )
                        status = VerificationStatus.REFUTED
                    elif tolerated:
                        full = dict(fixed)
                        full.update(realized or {})
                        res.tolerated += 1
                        if realized is not None:
                            res.known_hits.append({"id": tolerated.finding.get("id"), "label": tolerated.label, "args": _jsonable(full)})
                        status = VerificationStatus.CONFIRMED
                        res.completed += 1
                        for c in _STATE.covers:
                            res.covers[c] = res.covers.get(c, 0) + 1
                    else:
                        status = VerificationStatus.CONFIRMED
                        res.completed += 1
                        res.runs += max(1, _STATE.runs)
                        if _STATE.covers:
                            res.nontrivial += 1
                        for c in _STATE.covers:
                            res.covers[c] = res.covers.get(c, 0) + 1
                        if _STATE.checks_reached:
                            res.covers["<reached-check>"] = res.covers.get("<reached-check>", 0) + 1
                        if realized is not None and len(res.samples) < want_samples:
                            full = dict(fixed)
                            full.update(realized)
                            s = {"args": _jsonable(full), "covers": sorted(_STATE.covers)}
                            if _STATE.notes:
                                s["notes"] = _jsonable(_STATE.notes[:6])
                            res.samples.append(s)
                except IgnoreAttempt:
                    status = None
                    res.discarded += 1
                except UnexploredPath as e:
                    status = VerificationStatus.UNKNOWN
                    res.unknown += 1
                    k = type(e).__name__ + ":" + str(e)[:80]
                    res.unknown_reasons[k] = res.unknown_reasons.get(k, 0) + 1
                finally:
                    _STATE.symbolic = False
                # A refuted path: record as CONFIRMED in the tree so exploration can continue to
                # look for *other* failures (we keep our own list); cap the number kept.
                tree_status = status
                if status == VerificationStatus.REFUTED:
                    tree_status = VerificationStatus.CONFIRMED
                _analysis, exhausted = space.bubble_status(CallAnalysis(tree_status))
            if exhausted:
                break
            if res.failures and "confirmed" not in res.failures[-1]:
                # replay the newest counterexample at once in a fresh interpreter: only failures that reproduce there count
                # towards the limit that ends the exploration - a counterexample that depends on what EARLIER paths left in
                # this worker process (state a change under test may have added) must not hide the ones that do reproduce
                res.failures[-1]["confirmed"] = _quick_confirm(ob, res.failures[-1])
            confirmed = sum(1 for f in res.failures if f.get("confirmed"))
            if confirmed >= max_failures or len(res.failures) >= max_failures + 9:
                break
    except NotDeterministic as e:
        hard_error = "NotDeterministic: %s" % e
    except BaseException as e:  # engine trouble; never a verdict about the code
        if isinstance(e, KeyboardInterrupt):
            raise
        hard_error = "%s: %s\n%s" % (type(e).__name__, e, traceback.format_exc(limit=10))
    finally:
        _STATE.symbolic = False
        fncov.stop()
        if ob.teardown:
            try:
                ob.teardown()
            except Exception:
                pass
    res.exhausted = bool(exhausted)
    res.solver_checks = _SOLVER_STATS["n"] - n0
    res.solver_s = round(_SOLVER_STATS["t"] - st0, 3)
    res.wall_s = round(time.perf_counter() - t_start, 3)
    res.functions = sorted(fncov.seen)
    if hard_error:
        res.verdict = "HARNESS-ERROR"
        res.error = hard_error
    elif res.failures:
        res.verdict = "REFUTED"
    elif res.exhausted and res.unknown == 0:
        res.verdict = "HOLDS"
    else:
        res.verdict = "INCONCLUSIVE"
    return res
