"""File-system oracles: tree digest and an audit-hook mutation detector."""
import hashlib
import os


def tree_digest(paths):
    h = hashlib.sha256()
    n = 0
    for root in paths:
        for d, dirs, files in sorted(os.walk(root)):
            dirs.sort()
            h.update(d.encode())
            for f in sorted(files):
                p = os.path.join(d, f)
                st = os.stat(p)
                h.update(f.encode())
                h.update(str(st.st_mtime_ns).encode())
                with open(p, "rb") as fh:
                    h.update(fh.read())
                n += 1
    return h.hexdigest(), n


class MutationAudit:
    """sys.addaudithook listener counting file-system mutations under given roots (independent of the tree digest)."""

    _installed = False
    active = None

    def __init__(self, roots):
        self.roots = [os.path.realpath(r) for r in roots]
        self.events = []
        if not MutationAudit._installed:
            import sys

            sys.addaudithook(MutationAudit._hook)
            MutationAudit._installed = True

    @staticmethod
    def _hook(event, args):
        self = MutationAudit.active
        if self is None:
            return
        try:
            if event == "open":
                path, mode, flags = args
                if isinstance(path, (str, bytes)) and (flags & (os.O_WRONLY | os.O_RDWR | os.O_CREAT | os.O_TRUNC | os.O_APPEND)):
                    self._note(event, path)
            elif event in ("os.mkdir", "os.remove", "os.rmdir", "os.rename", "os.truncate", "os.unlink", "shutil.rmtree", "os.symlink",
                           "os.link", "os.utime", "os.chmod", "shutil.move", "shutil.copyfile"):
                self._note(event, args[0])
        except Exception:  # noqa
            pass

    def _note(self, event, path):
        p = os.path.realpath(os.fsdecode(path))
        for r in self.roots:
            if p == r or p.startswith(r + os.sep):
                self.events.append((event, p))

    def __enter__(self):
        MutationAudit.active = self
        return self

    def __exit__(self, *a):
        MutationAudit.active = None


