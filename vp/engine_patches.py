"""
Patches for measured defects of CrossHair 0.0.110 (DESIGN.md 2.8). Listed in every evidence file.
"""
import enum

_DONE = False

PATCHES = [
    "crosshair.libimpl.relib._Match.groupdict replaced (0.0.110 returns spans and drops unmatched groups)",
    "crosshair.opcode_intercept MapAddInterceptor skipped for Enum keys (SystemError in dict displays keyed by Enum)",
    "crosshair datetime/date/time/timedelta/timezone call patches removed (pure-Python datetime does not interoperate with the "
    "real tzinfo objects dateutil returns); dates are therefore always concrete",
    "crosshair weakref.ref.__call__ patch removed (it runs gc.collect() on every dereference, ~30 ms each); harnesses keep strong "
    "references to every weakly referenced value for the whole path, which makes dereferences deterministic",
]


def install():
    global _DONE
    if _DONE:
        return
    _DONE = True
    import crosshair.core_and_libs  # noqa: F401  (registers opcode patches and library models)
    from crosshair.libimpl import relib

    def groupdict(self, default=None):
        ret = {}
        for name, idx in self.re.groupindex.items():
            ret[name] = self.group(idx) if self._groups[idx] is not None else default
        return ret

    relib._Match.groupdict = groupdict

    import datetime as _dt
    from crosshair import core as _core

    for real in (_dt.date, _dt.time, _dt.datetime, _dt.timedelta, _dt.timezone):
        _core._PATCH_REGISTRATIONS.pop(real, None)

    import weakref as _weakref

    _core._PATCH_REGISTRATIONS.pop(_weakref.ref.__call__, None)

    from crosshair import opcode_intercept as oi

    if hasattr(oi, "MapAddInterceptor"):
        orig = oi.MapAddInterceptor.trace_op

        def trace_op(self, frame, codeobj, codenum):
            try:
                from crosshair.tracers import frame_stack_read

                key = frame_stack_read(frame, -2)
                if isinstance(key, enum.Enum):
                    return None
            except Exception:
                pass
            return orig(self, frame, codeobj, codenum)

        oi.MapAddInterceptor.trace_op = trace_op
