"""
FaultFS (DESIGN.md 3.4): Python-level wrappers around the real mutating file-system calls, active only
for paths under a given root. A fault plan (k, variant, t) fires at the k-th mutating operation:

    variant 'die-before'   the process dies before the operation has any effect
    variant 'die-after'    the operation completes (mkdir / open creates an empty file / the whole write lands), then the process dies
                           (a 'write' is the moment buffered bytes reach the file system: flush or close - bytes written to a file
                           object that is still open are lost when the process dies, as with real buffered files)
    variant 'die-partial'  (write only) the first t bytes land, then the process dies
    variant 'err-before'   the operation raises OSError(ENOSPC) and has no effect
    variant 'err-partial'  (write only) the first t bytes land, then OSError(ENOSPC) is raised (EFBIG when t is odd)

"The process dies" = a BaseException no handler in memento catches is raised, and from then on every mutating
operation under the root is silently dropped (a dead process runs no cleanup code).
"""
import builtins
import errno
import io
import os
import shutil

VARIANTS = ["die-before", "die-after", "die-partial", "err-before", "err-partial"]


class ProcessDied(BaseException):
    pass


class _FileProxy:
    """A file opened for writing under the root. Like a real buffered file object, what is written stays in the process
    (pending) until flush / close: that is when the bytes LAND, and that is the fault point. If the process dies first,
    pending bytes of every open file are lost (the file exists, created by open, with whatever landed before)."""

    def __init__(self, fs, real, path):
        self._fs = fs
        self._real = real
        self._path = path
        self._pending = []

    def write(self, data):
        if self._fs.real_death:
            # validation mode (real child process): nothing is modelled - the real file object does its own buffering; only
            # remember that something is pending so that flush / close is counted as the landing operation
            self._pending.append(data[:0])
            self._npending = getattr(self, "_npending", 0) + len(data)
            return self._real.write(data)
        if not self._fs.dead:
            self._pending.append(data)
        return len(data)

    def flush(self):
        self._fs._land(self)

    def __enter__(self):
        return self

    def __exit__(self, *a):
        self.close()
        return False

    def close(self):
        try:
            self._fs._land(self)
        finally:
            try:
                self._real.close()
            except Exception:  # noqa
                pass

    def __getattr__(self, k):
        return getattr(self._real, k)


class _Sink:
    def write(self, data):
        return len(data)

    def __enter__(self):
        return self

    def __exit__(self, *a):
        return False

    def close(self):
        pass

    def flush(self):
        pass


class FaultFS:
    def __init__(self, root, plan=None, real_death=False):
        self.real_death = real_death  # the process really dies (os._exit) and files are really buffered by CPython
        self.root = os.path.realpath(root)
        self.plan = plan  # (k, variant, t) or None
        self.ops = []     # trace of mutating operations: (kind, relpath, size)
        self.dead = False
        self.fired = False
        self._saved = None

    # ---- helpers
    def _under(self, path):
        try:
            p = os.path.realpath(os.fsdecode(path))
        except Exception:  # noqa
            return False
        return p == self.root or p.startswith(self.root + os.sep)

    def _rel(self, path):
        return os.path.relpath(os.path.realpath(os.fsdecode(path)), self.root)

    def _next(self, kind, path, size=0):
        """register a mutating op; returns the fault variant to apply now (or None)"""
        idx = len(self.ops)
        self.ops.append((kind, self._rel(path), size))
        if self.plan is not None and not self.fired and self.plan[0] == idx:
            self.fired = True
            return self.plan[1]
        return None

    def _die(self):
        self.dead = True
        if self.real_death:
            os._exit(77)
        raise ProcessDied()

    # ---- wrapped primitives
    def _open(self, real_open):
        def opener(file, mode="r", *a, **k):
            is_path = isinstance(file, (str, bytes, os.PathLike))
            if not is_path or not any(c in mode for c in "wax+") or not self._under(file):
                return real_open(file, mode, *a, **k)
            if self.dead:
                return _Sink()
            v = self._next("open", file)
            if v == "die-before":
                self._die()
            if v == "err-before":
                raise OSError(errno.ENOSPC, "No space left on device (injected)", os.fsdecode(file))
            real = real_open(file, mode, *a, **k)
            if v in ("die-after",):
                real.close()
                self._die()
            return _FileProxy(self, real, file)

        return opener

    def _land(self, proxy):
        """flush / close of a file with pending bytes: the mutating operation 'write' (the bytes reach the file system)"""
        if not proxy._pending:
            return
        chunks, proxy._pending = proxy._pending, []
        if self.dead:
            return
        if self.real_death:
            n, proxy._npending = getattr(proxy, "_npending", 0), 0
            v = self._next("write", proxy._path, n)
            if v == "die-before":
                self._die()          # the bytes are still in CPython's buffer: lost
            proxy._real.flush()
            if v == "die-after":
                self._die()
            return
        data = chunks[0][:0].join(chunks)
        v = self._next("write", proxy._path, len(data))
        if v == "die-before":
            self._die()
        if v == "err-before":
            raise OSError(errno.ENOSPC, "No space left on device (injected)")
        if v in ("die-partial", "err-partial"):
            t = max(0, min(len(data), self.plan[2]))
            proxy._real.write(data[:t])
            proxy._real.flush()
            if v == "die-partial":
                self._die()
            raise OSError(errno.EFBIG if t % 2 else errno.ENOSPC, "injected")
        proxy._real.write(data)
        proxy._real.flush()
        if v == "die-after":
            self._die()

    def _wrap_simple(self, kind, real):
        def f(path, *a, **k):
            if not self._under(path):
                return real(path, *a, **k)
            if self.dead:
                return None
            v = self._next(kind, path)
            if v == "die-before":
                self._die()
            if v == "err-before":
                raise OSError(errno.ENOSPC, "No space left on device (injected)", os.fsdecode(path))
            r = real(path, *a, **k)
            if v == "die-after":
                self._die()
            return r

        return f

    # ---- install / uninstall
    def __enter__(self):
        self._saved = (builtins.open, io.open, os.makedirs, os.mkdir, os.unlink, os.remove, os.rmdir, os.rename, os.replace, shutil.rmtree)
        o = self._open(self._saved[1])
        builtins.open = o
        io.open = o
        os.makedirs = self._wrap_simple("makedirs", self._saved[2])
        # os.mkdir is called by the real makedirs: leave it alone to count one op per makedirs call
        os.unlink = self._wrap_simple("unlink", self._saved[4])
        os.remove = self._wrap_simple("remove", self._saved[5])
        os.rmdir = self._wrap_simple("rmdir", self._saved[6])
        os.rename = self._wrap_simple("rename", self._saved[7])
        os.replace = self._wrap_simple("replace", self._saved[8])
        shutil.rmtree = self._wrap_simple("rmtree", self._saved[9])
        return self

    def __exit__(self, *a):
        (builtins.open, io.open, os.makedirs, os.mkdir, os.unlink, os.remove, os.rmdir, os.rename, os.replace, shutil.rmtree) = self._saved
        return False
