"""
Check runner: schedules obligation jobs over worker processes, replays counterexamples natively,
applies the known-findings file, writes /verif/evidence/<id>.json, prints VIOLATION lines.

Exit codes: 0 = nothing explored violates the property (HOLDS / INCONCLUSIVE / KNOWN-FINDING only)
            1 = a reproduced violation that is not a listed known finding
            2 = harness error (non-reproducing counterexample, vacuous obligation, engine failure)
"""
import argparse
import importlib
import itertools
import json
import multiprocessing as mp
import os
import subprocess
import sys
import time
import traceback

VERIF = os.path.dirname(os.path.dirname(os.path.abspath(__file__)))
REPO = os.environ.get("VP_REPO", "/repo")
for p in (VERIF, REPO):
    if p not in sys.path:
        sys.path.insert(0, p)

from vp import engine  # noqa: E402
from vp.engine import REGISTRY, JobResult  # noqa: E402

EVIDENCE_DIR = os.environ.get("VP_EVIDENCE_DIR") or os.path.join(VERIF, "evidence")  # override: seeded-change runs must not rewrite real evidence
REPLAY_DIR = os.path.join(EVIDENCE_DIR, "replay")
KNOWN_FILE = os.path.join(VERIF, "known_findings.json")
GUARD = "TWOSIGMA_MEMENTO_VERIF"


def load_known(prop):
    if not os.path.exists(KNOWN_FILE):
        return []
    with open(KNOWN_FILE) as f:
        data = json.load(f)
    return [k for k in data.get("findings", []) if k.get("property") == prop]


def load_obligations(prop):
    importlib.import_module("obligations.%s" % prop.lower())
    return [ob for ob in REGISTRY.values() if ob.prop == prop]


def _job(args):
    (prop, ob_name, fixed, budget, seed, known) = args
    try:
        importlib.import_module("obligations.%s" % prop.lower())
        ob = REGISTRY[ob_name]
        res = engine.explore(ob, fixed, budget, known, seed=seed)
        return res.__dict__
    except BaseException as e:  # noqa
        r = JobResult(obligation=ob_name, fixed=fixed, verdict="HARNESS-ERROR", exhausted=False)
        r.error = "%s: %s\n%s" % (type(e).__name__, e, traceback.format_exc(limit=8))
        return r.__dict__


def _combos(split):
    if not split:
        return [{}]
    keys = list(split.keys())
    out = []
    for vals in itertools.product(*[split[k] for k in keys]):
        out.append(dict(zip(keys, vals)))
    return out


def replay_file(path, quiet=False):
    """Native replay of a recorded counterexample. Returns outcome tuple."""
    with open(path) as f:
        rec = json.load(f)
    prop = rec["property"]
    importlib.import_module("obligations.%s" % prop.lower())
    ob = REGISTRY[rec["obligation"]]
    args = engine._unjson(rec["args"])
    if ob.setup:
        ob.setup()
    try:
        out = engine.run_native(ob, args, known=[])
        if out[0] == "fail" and ob.replay_real is not None and not rec.get("skip_real"):
            real = ob.replay_real(args, out[1])
            if real is not None:
                out = out + (real,)
    finally:
        if ob.teardown:
            ob.teardown()
    if not quiet:
        print("replay %s: outcome=%s label=%s" % (rec["obligation"], out[0], out[1]))
        if out[2] is not None:
            print("  info: %s" % (str(out[2])[:2000]))
        if len(out) > 3:
            print("  real-thing replay: %s" % (out[3],))
    return out


def _replay_subprocess(path):
    env = dict(os.environ)
    env["PYTHONHASHSEED"] = "0"
    env[GUARD] = "1"
    p = subprocess.run(
        [sys.executable, "-m", "vp.run", "replay", path, "--json"],
        cwd=VERIF, env=env, capture_output=True, text=True, timeout=600,
    )
    last = None
    for line in p.stdout.splitlines():
        if line.startswith("REPLAY-JSON "):
            last = json.loads(line[len("REPLAY-JSON "):])
    return last, p.stdout[-2000:] + p.stderr[-2000:]


def run_property(prop, tier, seed, only=None, jobs=None, budget_scale=1.0):
    t0 = time.time()
    import shutil
    shutil.rmtree(os.path.join(REPLAY_DIR, prop), ignore_errors=True)
    obligations = [ob for ob in load_obligations(prop) if tier in ob.tiers]
    if only:
        # --only <substring>, or --only =<exact obligation name>
        obligations = [ob for ob in obligations if any((o[1:] == ob.name) if o.startswith("=") else (o in ob.name) for o in only)]
    known = load_known(prop)
    open_known = [k for k in known if str(k.get("status", "open")).startswith("open")]
    joblist = []
    for ob in obligations:
        split = dict(ob.split)
        split.update(ob.tier_split.get(tier, {}))
        fixed_base = dict(ob.tier_args.get(tier, {}))
        for combo in _combos(split):
            fixed = dict(fixed_base)
            fixed.update(combo)
            kf = [k for k in open_known if k.get("obligation") in (None, ob.name)]
            joblist.append((prop, ob.name, fixed, ob.budget_s.get(tier, 120.0) * budget_scale, seed, kf))
    nproc = jobs or min(16, max(1, len(joblist)))
    results = []
    if joblist:
        ctx = mp.get_context("fork")
        with ctx.Pool(processes=nproc, maxtasksperchild=1) as pool:
            for r in pool.imap_unordered(_job, joblist, chunksize=1):
                results.append(r)
    # ---- aggregate per obligation
    os.makedirs(REPLAY_DIR, exist_ok=True)
    per_ob = {}
    for r in results:
        per_ob.setdefault(r["obligation"], []).append(r)
    ob_reports = []
    violations = []
    harness_errors = []
    known_hit_ids = {}
    total_paths = total_completed = total_nontrivial = 0
    total_checks = 0
    total_solver_s = 0.0
    samples = []
    all_functions = set()
    all_exhaustive = True
    for ob in obligations:
        rs = per_ob.get(ob.name, [])
        agg = {
            "obligation": ob.name,
            "jobs": len(rs),
            "bounds": ob.bounds,
            "variables": ob.variables,
            "stubs": list(ob.stubs),
            "paths": sum(r["paths"] for r in rs),
            "completed": sum(r["completed"] for r in rs),
            "runs_of_real_code": sum(r.get("runs", 0) for r in rs),
            "discarded_by_assume": sum(r["discarded"] for r in rs),
            "unknown": sum(r["unknown"] for r in rs),
            "tolerated_known": sum(r["tolerated"] for r in rs),
            "exhausted": all(r["exhausted"] for r in rs) and bool(rs),
            "solver_checks": sum(r["solver_checks"] for r in rs),
            "solver_s": round(sum(r["solver_s"] for r in rs), 3),
            "wall_s_sum": round(sum(r["wall_s"] for r in rs), 3),
            "slowest_jobs": sorted(((r["wall_s"], r["fixed"]) for r in rs), key=lambda t: -t[0])[:3],
            "covers": {},
        }
        unknown_reasons = {}
        for r in rs:
            for c, n in r["covers"].items():
                agg["covers"][c] = agg["covers"].get(c, 0) + n
            all_functions.update(r["functions"])
            for k, n in r.get("unknown_reasons", {}).items():
                unknown_reasons[k] = unknown_reasons.get(k, 0) + n
        if unknown_reasons:
            agg["unknown_reasons"] = unknown_reasons
        verdicts = [r["verdict"] for r in rs]
        errs = [r["error"] for r in rs if r["error"]]
        if "HARNESS-ERROR" in verdicts:
            verdict = "HARNESS-ERROR"
            harness_errors.append("%s: %s" % (ob.name, errs[0][:1500] if errs else "?"))
        elif "REFUTED" in verdicts:
            verdict = "REFUTED"
        elif all(v == "HOLDS" for v in verdicts) and rs:
            verdict = "HOLDS"
        else:
            verdict = "INCONCLUSIVE"
        # vacuity
        if verdict == "HOLDS":
            missing = [c for c in ob.covers if not agg["covers"].get(c)]
            if not agg["covers"].get("<reached-check>"):
                missing.append("<reached-check>")
            if missing:
                verdict = "HARNESS-ERROR"
                harness_errors.append("%s: vacuous, cover labels never hit: %s" % (ob.name, missing))
        # counterexamples -> replay natively in a fresh interpreter
        k = 0
        confirmed = 0
        for r in rs:
            for fail in r["failures"]:
                k += 1
                path = os.path.join(REPLAY_DIR, prop, "%s-%d.json" % (ob.name, k))
                os.makedirs(os.path.dirname(path), exist_ok=True)
                rec = {"property": prop, "obligation": ob.name, "label": fail["label"], "args": fail["args"],
                       "info": fail["info"], "trace": fail["trace"], "tier": tier}
                with open(path, "w") as f:
                    json.dump(rec, f, indent=1)
                out, log = _replay_subprocess(path)
                if out and out["outcome"] == "fail" and out["label"] == fail["label"] and out.get("real", "ok") != "not-reproduced":
                    confirmed += 1
                    violations.append({"obligation": ob.name, "label": fail["label"], "replay": path,
                                       "args": fail["args"], "info": fail["info"]})
                else:
                    harness_errors.append("%s: counterexample for label %r did not reproduce natively (%s) args=%s\n%s"
                                          % (ob.name, fail["label"], out, json.dumps(fail["args"])[:400], log[-600:]))
            for h in r["known_hits"]:
                known_hit_ids.setdefault(h["id"], h)
        if verdict == "REFUTED" and confirmed == 0:
            verdict = "HARNESS-ERROR"
        agg["verdict"] = verdict
        if verdict != "HOLDS":
            all_exhaustive = False
        ob_reports.append(agg)
        total_paths += agg["paths"]
        total_completed += agg["completed"]
        total_nontrivial += sum(r["nontrivial"] for r in rs)
        total_checks += agg["solver_checks"]
        total_solver_s += agg["solver_s"]
        for r in rs:
            for s in r["samples"][:2]:
                if len(samples) < 40:
                    samples.append({"obligation": ob.name, **s})
    wall = time.time() - t0
    # ---- evidence
    from vp import engine_patches

    inconclusive = [o["obligation"] for o in ob_reports if o["verdict"] == "INCONCLUSIVE"]
    evidence = {
        "property_id": prop,
        "tier": tier,
        "seed": seed,
        "level": "other",
        "coverage": {
            "explanation": (
                "Bounded symbolic execution of the real twosigma/memento code (CrossHair 0.0.110 StateSpace driven by "
                "/verif/vp/engine.py, z3 deciding every branch on a symbolic value). Per obligation the path tree is "
                "explored until exhausted within the stated bounds; 'HOLDS' = exhausted, no unknown path, every cover "
                "label and the final check reached; 'INCONCLUSIVE' = bug-hunting only. Counterexamples are replayed "
                "natively in a fresh interpreter before being reported."
            ),
            "evaluations": total_completed,
            "distinct_nontrivial": total_nontrivial,
            "rule": "one evaluation = one completed feasible path through harness + real code (paths differ in at least "
                    "one solver-decided branch, hence distinct); non-trivial = the path hit at least one declared cover label",
            "samples": samples,
            "exhaustive": bool(all_exhaustive and ob_reports),
            "obligations": len(ob_reports),
            "discharged": sum(1 for o in ob_reports if o["verdict"] == "HOLDS"),
            "inconclusive_obligations": inconclusive,
            "obligation_reports": ob_reports,
            "queries_discharged": total_checks,
            "solver_seconds": round(total_solver_s, 3),
            "paths_started": total_paths,
            "real_functions_executed": sorted(all_functions),
            "known_findings_hit": sorted(k for k in known_hit_ids if k),
            "trusted_base": ["CPython 3.12", "z3 5.1.0", "CrossHair 0.0.110 tracer and proxies"] + engine_patches.PATCHES
                            + ["/verif/vp driver, stubs and oracles"],
            "harness_errors": harness_errors,
        },
        "assumptions": sorted(set(
            ["bounds per obligation: " + o["obligation"] + ": " + (o["bounds"] or "see DESIGN.md") for o in ob_reports]
            + ["stub: " + s for o in ob_reports for s in o["stubs"]]
        )),
        "wall_s": round(wall, 2),
        "violations": len(violations),
    }
    os.makedirs(EVIDENCE_DIR, exist_ok=True)
    with open(os.path.join(EVIDENCE_DIR, "%s.json" % prop), "w") as f:
        json.dump(evidence, f, indent=1, sort_keys=False)
    # ---- report
    for o in ob_reports:
        print("%-14s %-40s paths=%-6d done=%-6d unk=%-4d exhausted=%-5s solver=%d/%.1fs  jobs=%d"
              % (o["verdict"], o["obligation"], o["paths"], o["completed"], o["unknown"], o["exhausted"],
                 o["solver_checks"], o["solver_s"], o["jobs"]))
        if o["verdict"] == "INCONCLUSIVE":
            print("   INCONCLUSIVE (bug-hunting only): %s %s" % (o["obligation"], o.get("unknown_reasons", "")))
    for k in open_known:
        hit = k.get("id") in known_hit_ids
        print("KNOWN-FINDING: property=%s %s [%s]%s" % (prop, k.get("what"), k.get("id"), "" if hit else " (not exercised in this tier/run)"))
    for e in harness_errors:
        print("HARNESS-ERROR: %s" % e)
    for v in violations:
        print("VIOLATION property=%s replay=%s" % (prop, v["replay"]))
        print("   obligation=%s label=%s args=%s info=%s" % (v["obligation"], v["label"], json.dumps(v["args"])[:300], str(v["info"])[:300]))
    print("%s tier=%s wall=%.1fs obligations=%d holds=%d inconclusive=%d violations=%d harness_errors=%d"
          % (prop, tier, wall, len(ob_reports), evidence["coverage"]["discharged"], len(inconclusive), len(violations), len(harness_errors)))
    if violations:
        return 1
    if harness_errors:
        return 2
    return 0


def main(argv=None):
    ap = argparse.ArgumentParser()
    sub = ap.add_subparsers(dest="cmd", required=True)
    c = sub.add_parser("check")
    c.add_argument("prop")
    c.add_argument("--tier", default=os.environ.get("VERIF_TIER", "quick"))
    c.add_argument("--only", action="append")
    c.add_argument("--jobs", type=int)
    c.add_argument("--budget-scale", type=float, default=1.0)
    r = sub.add_parser("replay")
    r.add_argument("path")
    r.add_argument("--json", action="store_true")
    args = ap.parse_args(argv)
    if args.cmd == "check":
        seed = int(os.environ.get("VERIF_SEED", "0") or 0)
        tier = args.tier if args.tier in ("quick", "thorough") else "quick"
        sys.exit(run_property(args.prop, tier, seed, only=args.only, jobs=args.jobs, budget_scale=args.budget_scale))
    if args.cmd == "replay":
        out = replay_file(args.path, quiet=args.json)
        if args.json:
            d = {"outcome": out[0], "label": out[1], "info": str(out[2])[:1500] if out[2] is not None else None}
            if len(out) > 3:
                d["real"] = out[3]
            print("REPLAY-JSON " + json.dumps(d))
        sys.exit(1 if out[0] == "fail" else 0)


if __name__ == "__main__":
    main()
