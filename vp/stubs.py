"""
Environment stubs (DESIGN.md 2.6). Every stub is installed by attribute assignment on the importing
module (never on the global library) and removed afterwards.
"""
import contextlib
import hashlib as _real_hashlib
import json as _real_json

SAFE_ALPHABET = "ab:_ "  # characters that json.dumps renders verbatim (validated at start-up, see below)


class _InjectiveSha:
    """sha256 stand-in whose 'digest' is the pre-image itself: digest equality <=> pre-image equality."""

    def __init__(self, data=None):
        self.parts = []
        if data is not None:
            self.update(data)

    def update(self, data):
        self.parts.append(data)

    def _text(self):
        out = ""
        for p in self.parts:
            out = out + (p.decode("utf-8") if isinstance(p, (bytes, bytearray)) else p)
        return out

    def hexdigest(self):
        return self._text()

    def digest(self):
        return self._text().encode("utf-8")


class InjectiveHashlib:
    sha256 = _InjectiveSha


class SafeJson:
    """json stand-in: strings over the escape-free alphabet are rendered '"' + s + '"' (what json.dumps does for them;
    validated concretely by validate_safe_json()); everything else goes to the real json module."""

    JSONDecodeError = _real_json.JSONDecodeError

    @staticmethod
    def dumps(obj, **kw):
        if isinstance(obj, str):
            return '"' + obj + '"'
        return _real_json.dumps(obj, **kw)

    @staticmethod
    def loads(s, **kw):
        return _real_json.loads(s, **kw)

    load = staticmethod(_real_json.load)
    dump = staticmethod(_real_json.dump)


_validated = [False]


def validate_safe_json(maxlen=3):
    """Translator validation: for every string over SAFE_ALPHABET up to maxlen the stub agrees with json.dumps."""
    if _validated[0]:
        return
    import itertools

    n = 0
    for k in range(maxlen + 1):
        for t in itertools.product(SAFE_ALPHABET, repeat=k):
            s = "".join(t)
            assert _real_json.dumps(s) == SafeJson.dumps(s), s
            n += 1
    _validated[0] = True
    return n


@contextlib.contextmanager
def hashing_stubs(module=None, injective=True, safe_json=True):
    """Install InjectiveDigest and SafeJson in twosigma.memento.reference (default) for the duration."""
    from twosigma.memento import reference

    mod = module or reference
    validate_safe_json()
    saved = (mod.hashlib, mod.json)
    try:
        if injective:
            mod.hashlib = InjectiveHashlib
        if safe_json:
            mod.json = SafeJson
        yield
    finally:
        mod.hashlib, mod.json = saved


# ------------------------------------------------------------------------------------------------
# interning digest: digests are short tokens, equal iff the pre-images are equal (decided by the solver)
# ------------------------------------------------------------------------------------------------


class InterningHashlib:
    """hashlib stand-in for code that truncates digests (hexdigest()[0:16]): every distinct pre-image gets its own
    16-character token; whether a new pre-image equals an earlier one is a (symbolic) comparison, so the engine
    explores both outcomes. Digest equality <=> pre-image equality by construction (SHA-256 collision freedom)."""

    def __init__(self):
        self.table = []  # (parts, token)

    def sha256(self, data=None):
        return _InterningSha(self, data)


def _as_text(p):
    if isinstance(p, str):
        return p
    return p.decode("latin-1")


def _parts_equal(a, b):
    """update(x); update(y) == update(x + y): compare the concatenations"""
    ta = ""
    for p in a:
        ta = ta + _as_text(p)
    tb = ""
    for p in b:
        tb = tb + _as_text(p)
    return ta == tb


class _InterningSha:
    def __init__(self, owner, data=None):
        self.owner = owner
        self.parts = []
        if data is not None:
            self.update(data)

    def update(self, data):
        self.parts.append(data)

    def hexdigest(self):
        for parts, token in self.owner.table:
            if _parts_equal(parts, self.parts):
                return token
        token = "%016x" % (0xD16E57 * 1000 + len(self.owner.table))
        self.owner.table.append((list(self.parts), token))
        return token

    def digest(self):
        return self.hexdigest().encode("ascii")


class ArbitraryOrderFrozenset(frozenset):
    """A frozenset whose iteration (and repr) order is chosen by the caller: the only contract an unordered
    container of strings has under hash randomisation."""

    def __new__(cls, items, order):
        self = super().__new__(cls, items)
        self._order = list(order)
        return self

    def __iter__(self):
        return iter(self._order)

    def __repr__(self):
        return "frozenset({" + ", ".join(repr(x) for x in self._order) + "})"


class PermutedSet(set):
    """A set of names iterated in a caller-chosen order (see ArbitraryOrderFrozenset)."""

    def __init__(self, items, perm_index):
        super().__init__(items)
        import itertools

        base = sorted(items)
        k = len(base)
        if k <= 1:
            self._order = base
        elif k <= 4:
            perms = list(itertools.permutations(base))
            self._order = list(perms[perm_index % len(perms)])
        else:
            # rotations and reversed rotations
            r = perm_index % (2 * k)
            o = base[r % k:] + base[:r % k]
            self._order = o[::-1] if r >= k else o

    def __iter__(self):
        return iter(list(self._order))
