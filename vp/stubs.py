"""
Environment stubs (DESIGN.md 2.6). Every stub is installed by attribute assignment on the importing
module (never on the global library) and removed afterwards.
"""
import contextlib
import hashlib as _real_hashlib
import json as _real_json

SAFE_ALPHABET = "ab:_ "  # characters that json.dumps renders verbatim (validated at start-up, see below)


class _InjectiveSha:
    """sha256 stand-in whose 'digest' is the pre-image itself: digest equality <=> pre-image equality."""

    def __init__(self, data=None):
        self.parts = []
        if data is not None:
            self.update(data)

    def update(self, data):
        self.parts.append(data)

    def _text(self):
        out = ""
        for p in self.parts:
            out = out + (p.decode("utf-8") if isinstance(p, (bytes, bytearray)) else p)
        return out

    def hexdigest(self):
        return self._text()

    def digest(self):
        return self._text().encode("utf-8")


class InjectiveHashlib:
    sha256 = _InjectiveSha


class SafeJson:
    """json stand-in: strings over the escape-free alphabet are rendered '"' + s + '"' (what json.dumps does for them;
    validated concretely by validate_safe_json()); everything else goes to the real json module."""

    JSONDecodeError = _real_json.JSONDecodeError

    @staticmethod
    def dumps(obj, **kw):
        if isinstance(obj, str):
            return '"' + obj + '"'
        return _real_json.dumps(obj, **kw)

    @staticmethod
    def loads(s, **kw):
        return _real_json.loads(s, **kw)

    load = staticmethod(_real_json.load)
    dump = staticmethod(_real_json.dump)


_validated = [False]


def validate_safe_json(maxlen=3):
    """Translator validation: for every string over SAFE_ALPHABET up to maxlen the stub agrees with json.dumps."""
    if _validated[0]:
        return
    import itertools

    n = 0
    for k in range(maxlen + 1):
        for t in itertools.product(SAFE_ALPHABET, repeat=k):
            s = "".join(t)
            assert _real_json.dumps(s) == SafeJson.dumps(s), s
            n += 1
    _validated[0] = True
    return n


@contextlib.contextmanager
def hashing_stubs(module=None, injective=True, safe_json=True):
    """Install InjectiveDigest and SafeJson in twosigma.memento.reference (default) for the duration."""
    from twosigma.memento import reference

    mod = module or reference
    validate_safe_json()
    saved = (mod.hashlib, mod.json)
    try:
        if injective:
            mod.hashlib = InjectiveHashlib
        if safe_json:
            mod.json = SafeJson
        yield
    finally:
        mod.hashlib, mod.json = saved
