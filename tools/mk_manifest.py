import json, sys
sys.path.insert(0,'/verif')
props=[json.loads(l) for l in open('/verif/properties.jsonl')]
from manifest_data import CHECKS, NA
checks=[]
for p in props:
    pid=p['id']
    if pid in CHECKS:
        c=CHECKS[pid]
        checks.append({
          "property_id": pid,
          "quick_cmd": "./check %s --tier quick" % pid,
          "thorough_cmd": "./check %s --tier thorough" % pid,
          "evidence_file": "/verif/evidence/%s.json" % pid,
          "replay_cmd_template": "./check replay {path}",
          "engine": "vp-crosshair",
          "level_claimed": {"category": "other", "text": c["text"], "design_ref": c.get("ref","DESIGN.md section 4/"+pid)},
          "level_note": c["note"],
          "technique": c["technique"],
        })
na=[{"property_id":p['id'],"reason":NA.get(p['id'],"check not built yet in this round (see DESIGN.md section 8 for the order of work)")} for p in props if p['id'] not in CHECKS]
m={
 "version":1,
 "setup_cmd":"./setup.sh",
 "hooks":{"guard":"TWOSIGMA_MEMENTO_VERIF","enable":"no hook commits exist: all interposition (stubs, fault layer) is done by the harness at run time through attribute assignment; ./check exports TWOSIGMA_MEMENTO_VERIF=1 for uniformity",
          "baseline_off_cmd":"cd /repo && /venv/bin/python -m pytest -ra -q -p no:cacheprovider --timeout=900 --continue-on-collection-errors","source_commits":[],"add_only":True},
 "engines":[{"name":"vp-crosshair","path":"/verif/vp/engine.py","serves_properties":sorted(CHECKS.keys()),
   "kind_free_text":"bounded symbolic execution of the real Python modules: own path-exploration driver over CrossHair 0.0.110's StateSpace (z3 5.1.0 decides every branch on a symbolic value), tree exhaustion = verdict within bounds, native replay of counterexamples"}],
 "checks":checks,
 "not_applicable":na,
 "notes":"Exit codes of ./check: 0 holds/inconclusive/known finding, 1 reproduced violation (VIOLATION line), 2 harness error. See DESIGN.md.",
}
json.dump(m,open('/verif/MANIFEST.json','w'),indent=1)
try:
    import jsonschema
except ImportError:
    jsonschema = None
if jsonschema: jsonschema.validate(m,json.load(open("/root/.vp/MANIFEST.schema.json")))
print("manifest ok:",len(checks),"checks,",len(na),"n/a")
