#!/bin/bash
# run every property's thorough command once, sequentially; one summary line each
cd "$(dirname "$0")/.."
for p in ${@:-C09 C05 C18 C17 C10 C13 C14 C15 C19 C02 C03 C04 C01 C06 C07 C08 C11 C12 C16}; do
  s=$(date +%s)
  ./check $p --tier thorough > thorough_$p.log 2>&1
  rc=$?
  echo "$p exit=$rc wall=$(( $(date +%s) - s ))s $(tail -1 thorough_$p.log)"
  grep -E "^(INCONCLUSIVE|REFUTED|HARNESS-ERROR|VIOLATION)" thorough_$p.log | cut -c1-220 | head -8
done
