#!/usr/bin/env python3
"""
Evaluate one seeded change: tools/seedtest.py <dir with patch.diff + demo.py> <property> [more properties...] [--tier quick]

1. scratch worktree of /repo HEAD (under /tmp/seedeval, removed afterwards), patch applied there;
2. confirm: existing suite passes with the patch; demo fails with the patch; demo passes on /repo;
3. run ./check <property> against the patched worktree (VP_REPO) with evidence redirected; report detection.
Prints one JSON line with the outcome.  /repo itself is never modified.
"""
import json, os, subprocess, sys, shutil, time

def sh(cmd, env=None, cwd=None, timeout=3600):
    e = dict(os.environ); e.update(env or {})
    p = subprocess.run(cmd, shell=True, cwd=cwd, env=e, capture_output=True, text=True, timeout=timeout)
    return p.returncode, p.stdout + p.stderr

def main():
    args = [a for a in sys.argv[1:] if not a.startswith("--")]
    tier = "quick"
    if "--tier" in sys.argv:
        tier = sys.argv[sys.argv.index("--tier") + 1]; args.remove(tier)
    skip_confirm = "--skip-confirm" in sys.argv
    d = os.path.abspath(args[0]); props = args[1:]
    tag = os.path.basename(os.path.dirname(d)) + "-" + os.path.basename(d) if os.path.basename(d).isdigit() else os.path.basename(d)
    wt = "/tmp/seedeval/%s-%d" % (tag, os.getpid())
    os.makedirs("/tmp/seedeval", exist_ok=True)
    out = {"seed": d, "props": props, "tier": tier}
    rc, o = sh("git -C /repo worktree add --detach %s HEAD" % wt)
    assert rc == 0, o
    try:
        rc, o = sh("git apply %s/patch.diff" % d, cwd=wt)
        out["applies"] = rc == 0
        if rc != 0:
            out["apply_err"] = o[-500:]; print(json.dumps(out)); return
        home = wt + "-home"; os.makedirs(home, exist_ok=True)
        env = {"HOME": home, "PYTHONPATH": wt}
        if not skip_confirm:
            rc, o = sh("/venv/bin/python -m pytest -q -p no:cacheprovider --timeout=900 -x", env=env, cwd=wt)
            out["suite_passes_with_patch"] = (rc == 0); out["suite_tail"] = o.strip().splitlines()[-1][:200]
            rc, o = sh("/venv/bin/python %s/demo.py" % d, env=env, cwd=home)
            out["demo_fails_with_patch"] = (rc != 0); out["demo_patched_tail"] = o.strip()[-300:]
            rc, o = sh("/venv/bin/python %s/demo.py" % d, env={"HOME": home, "PYTHONPATH": "/repo"}, cwd=home)
            out["demo_passes_pristine"] = (rc == 0)
            if rc != 0: out["demo_pristine_tail"] = o.strip()[-300:]
        out["checks"] = {}
        for pr in props:
            ev = "/tmp/seedeval/ev-%s-%d" % (tag, os.getpid())
            t0 = time.time()
            rc, o = sh("./check %s --tier %s" % (pr, tier), env={"VP_REPO": wt, "VP_EVIDENCE_DIR": ev, "VP_HOME": home}, cwd="/verif", timeout=7200)
            viol = [l for l in o.splitlines() if l.startswith("VIOLATION")]
            labels = sorted({l.split("label=")[1].split(" args=")[0] for l in o.splitlines() if l.strip().startswith("obligation=") and "label=" in l})
            obls = sorted({l.split("obligation=")[1].split(" ")[0] for l in o.splitlines() if l.strip().startswith("obligation=")})
            out["checks"][pr] = {"exit": rc, "violations": len(viol), "obligations": obls, "labels": labels[:8], "wall_s": round(time.time() - t0, 1),
                                 "tail": o.strip().splitlines()[-1][:200] if o.strip() else ""}
            if rc not in (0, 1):
                out["checks"][pr]["harness"] = [l[:300] for l in o.splitlines() if "HARNESS-ERROR" in l][:3]
            shutil.rmtree(ev, ignore_errors=True)
        out["detected_by"] = [p for p, r in out["checks"].items() if r["exit"] == 1 and r["violations"]]
    finally:
        sh("git -C /repo worktree remove --force %s" % wt)
        shutil.rmtree(wt + "-home", ignore_errors=True)
    print(json.dumps(out))

main()
