#!/usr/bin/env python3
"""tools/keep_seed.py <candidate dir> <P> <n> '<result json>' : copy a confirmed seeded change into /verif/seeded/<P>-<n>/ with meta.json"""
import json, os, re, shutil, sys, subprocess
cand, P, n, res = sys.argv[1], sys.argv[2], sys.argv[3], json.loads(sys.argv[4])
dst = "/verif/seeded/%s-%s" % (P, n)
os.makedirs(dst, exist_ok=True)
shutil.copy(os.path.join(cand, "patch.diff"), dst)
shutil.copy(os.path.join(cand, "demo.py"), dst)
notes = ""
np_ = os.path.join(os.path.dirname(cand), "notes.md")
if os.path.exists(np_):
    txt = open(np_).read()
    parts = re.split(r"(?m)^#+ .*(?:[Cc]hange|[Pp]atch)\s*%s\b.*$" % n, txt)
    if len(parts) > 1:
        notes = re.split(r"(?m)^#+ .*(?:[Cc]hange|[Pp]atch)\s*\d\b.*$", parts[1])[0].strip()
    else:
        notes = txt.strip()
head = subprocess.check_output(["git", "-C", "/repo", "rev-parse", "--short", "HEAD"], text=True).strip()
meta = {
    "property": P,
    "origin": "written by an independent sub-agent that saw only the property text and a scratch worktree of /repo",
    "applies_to_repo_commit": head,
    "what_it_needs_to_manifest": notes[:2500],
    "confirmed_by_me": {
        "existing_suite_passes_with_patch": res.get("suite_passes_with_patch"),
        "demo_fails_with_patch": res.get("demo_fails_with_patch"),
        "demo_passes_on_unchanged_tree": res.get("demo_passes_pristine"),
        "how": "tools/seedtest.py: scratch worktree of /repo HEAD + git apply patch.diff; /venv/bin/python -m pytest (319 tests); demo.py with PYTHONPATH=<patched tree> and with PYTHONPATH=/repo",
    },
    "checks_run": {k: {"exit": v["exit"], "violations": v["violations"], "obligations": v.get("obligations"), "labels": v.get("labels"), "wall_s": v.get("wall_s")} for k, v in res.get("checks", {}).items()},
    "detected_by": res.get("detected_by", []),
    "how_to_rerun": "python3 tools/seedtest.py /verif/seeded/%s-%s %s" % (P, n, " ".join(res.get("checks", {}).keys()) or P),
}
json.dump(meta, open(os.path.join(dst, "meta.json"), "w"), indent=1)
print("kept", dst, "detected_by", meta["detected_by"])
